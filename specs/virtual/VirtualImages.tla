--------------------------- MODULE VirtualImages ---------------------------
(***************************************************************************)
(* The virtual-image registry of Dataset4dstem (beyond the listed          *)
(* properties; grows the specification towards the rest of the system).    *)
(*                                                                         *)
(* A 4D-STEM dataset keeps two dictionaries: virtual DETECTORS (how an     *)
(* image is formed: a custom mask, or a mode + geometry from which the     *)
(* mask is rebuilt) and virtual IMAGES (the result, one value per scan     *)
(* position).  Public operations: get_virtual_image (attach or not),       *)
(* update_virtual_detector, clear_virtual_images, clear_all_virtual_data,  *)
(* regenerate_virtual_images, copy, and dataset operations that change the *)
(* diffraction-pattern shape (crop), in place or on a copy.                *)
(*                                                                         *)
(* Two objects A and B (B is created by copy / copying crop).  The data    *)
(* are a fixed integer function of (pattern, row, column); cropping keeps  *)
(* the leading (D-1) x (D-1) corner.  A custom mask belongs to one         *)
(* detector size.  A copy keeps mode + geometry but drops custom masks     *)
(* ("lost": cannot be regenerated) and starts without images.              *)
(***************************************************************************)
EXTENDS Integers, Sequences, FiniteSets, TLC, Json

CONSTANTS D0,        \* initial detector size (D0 x D0)
          NP,        \* number of scan positions
          MaxLen,    \* behaviour length
          Record,
          Bug        \* "none" | "keepimgs" (negative control: regenerate keeps the images it cannot re-form)

Objs == {"A", "B"}
Names == {"bf", "df"}

Inten(p, r, c) == (((p + 1) * ((r * D0) + c + 1)) + r) % 7

\* detector specifications
Circle == [kind |-> "circle", cy |-> 1, cx |-> 1, r1 |-> 1, r2 |-> 0, m |-> {}, ms |-> 0]
Annular == [kind |-> "annular", cy |-> 1, cx |-> 0, r1 |-> 1, r2 |-> 2, m |-> {}, ms |-> 0]
MaskBig == [kind |-> "mask", cy |-> 0, cx |-> 0, r1 |-> 0, r2 |-> 0, m |-> {<<0, 0>>, <<1, 2>>, <<2, 1>>}, ms |-> D0]
MaskSmall == [kind |-> "mask", cy |-> 0, cx |-> 0, r1 |-> 0, r2 |-> 0, m |-> {<<0, 1>>, <<1, 1>>}, ms |-> D0 - 1]
Lost == [kind |-> "lost", cy |-> 0, cx |-> 0, r1 |-> 0, r2 |-> 0, m |-> {}, ms |-> 0]
Specs == {Circle, Annular, MaskBig, MaskSmall}

\* the pixels a specification selects on a d x d detector
Pixels(s, d) ==
  LET all == (0..(d - 1)) \X (0..(d - 1))
      d2(q) == ((q[1] - s.cy) * (q[1] - s.cy)) + ((q[2] - s.cx) * (q[2] - s.cx))
  IN CASE s.kind = "circle" -> {q \in all : d2(q) <= s.r1 * s.r1}
       [] s.kind = "annular" -> {q \in all : d2(q) >= s.r1 * s.r1 /\ d2(q) <= s.r2 * s.r2}
       [] s.kind = "mask" -> s.m
       [] OTHER -> {}
\* a custom mask must have the shape of the current patterns
Usable(s, d) == s.kind \in {"circle", "annular"} \/ (s.kind = "mask" /\ s.ms = d)

RECURSIVE SumSet(_, _)
SumSet(S, p) == IF S = {} THEN 0 ELSE LET q == CHOOSE x \in S : TRUE IN Inten(p, q[1], q[2]) + SumSet(S \ {q}, p)
Image(s, d) == [p \in 1..NP |-> SumSet(Pixels(s, d), p - 1)]

\* torn: names whose detector entry was replaced by a failed update while the old image stayed (see Update)
NoObj == [exists |-> FALSE, d |-> 0, dets |-> [n \in {} |-> Lost], imgs |-> [n \in {} |-> <<>>], gen |-> [n \in {} |-> 0], torn |-> {}]

VARIABLES obj, last, hist
vars == <<obj, last, hist>>

Init == /\ obj = [o \in Objs |-> IF o = "A" THEN [NoObj EXCEPT !.exists = TRUE, !.d = D0] ELSE NoObj]
        /\ last = [op |-> "init", o |-> "A", ok |-> TRUE, ret |-> <<>>]
        /\ hist = <<>>

Put(f, k, v) == [x \in DOMAIN f \cup {k} |-> IF x = k THEN v ELSE f[x]]
Log(e) == hist' = IF Record THEN Append(hist, e) ELSE hist
Step(o, new, l) == /\ obj' = [obj EXCEPT ![o] = new] /\ last' = l
                   /\ Log([op |-> l.op, o |-> l.o, arg |-> l.arg, ok |-> l.ok, ret |-> l.ret, post |-> obj'])

\* get_virtual_image(mask= | mode=, geometry=, name=, attach=)
Get(o, n, s, attach) ==
  LET st == obj[o] IN
  /\ st.exists
  /\ IF Usable(s, st.d)
     THEN LET im == Image(s, st.d)
              new == IF attach THEN [st EXCEPT !.dets = Put(@, n, s), !.imgs = Put(@, n, im), !.gen = Put(@, n, st.d),
                                               !.torn = @ \ {n}] ELSE st
          IN Step(o, new, [op |-> "get", o |-> o, arg |-> [n |-> n, s |-> s, attach |-> attach], ok |-> TRUE, ret |-> im])
     ELSE Step(o, st, [op |-> "get", o |-> o, arg |-> [n |-> n, s |-> s, attach |-> attach], ok |-> FALSE, ret |-> <<>>])

\* update_virtual_detector(name, ...): unknown names are rejected.  The stored information is replaced BEFORE the
\* image is formed, so a mask of the wrong shape raises AFTER the detector entry was replaced: the entry is new,
\* the attached image (if any) is still the old detector's - a torn entry.  The model says what the code does and
\* names it (torn); NoTornEntries below is the property one would want and is known not to hold.
Update(o, n, s) ==
  LET st == obj[o] IN
  /\ st.exists
  /\ IF n \notin DOMAIN st.dets
     THEN Step(o, st, [op |-> "update", o |-> o, arg |-> [n |-> n, s |-> s], ok |-> FALSE, ret |-> <<>>])
     ELSE IF Usable(s, st.d)
          THEN Step(o, [st EXCEPT !.dets = Put(@, n, s), !.imgs = Put(@, n, Image(s, st.d)), !.gen = Put(@, n, st.d), !.torn = @ \ {n}],
                    [op |-> "update", o |-> o, arg |-> [n |-> n, s |-> s], ok |-> TRUE, ret |-> <<>>])
          ELSE Step(o, [st EXCEPT !.dets = Put(@, n, s), !.torn = IF n \in DOMAIN st.imgs THEN @ \cup {n} ELSE @],
                    [op |-> "update", o |-> o, arg |-> [n |-> n, s |-> s], ok |-> FALSE, ret |-> <<>>])

Restrict(f, S) == [x \in S |-> f[x]]
ClearImages(o) ==
  /\ obj[o].exists
  /\ Step(o, [obj[o] EXCEPT !.imgs = [n \in {} |-> <<>>], !.gen = [n \in {} |-> 0], !.torn = {}],
          [op |-> "clear_images", o |-> o, arg |-> [n |-> "", s |-> Lost], ok |-> TRUE, ret |-> <<>>])
ClearAll(o) ==
  /\ obj[o].exists
  /\ Step(o, [obj[o] EXCEPT !.imgs = [n \in {} |-> <<>>], !.gen = [n \in {} |-> 0], !.dets = [n \in {} |-> Lost], !.torn = {}],
          [op |-> "clear_all", o |-> o, arg |-> [n |-> "", s |-> Lost], ok |-> TRUE, ret |-> <<>>])

\* regenerate_virtual_images: all images are dropped and re-formed from mode + geometry for the CURRENT pattern
\* shape; detectors that only had a custom mask get no image
Regenerate(o) ==
  LET st == obj[o]
      regen == {n \in DOMAIN st.dets : st.dets[n].kind \in {"circle", "annular"}}
      keep == IF Bug = "keepimgs" THEN DOMAIN st.imgs \ regen ELSE {}
  IN /\ st.exists
     /\ Step(o, [st EXCEPT !.imgs = [n \in regen \cup keep |-> IF n \in regen THEN Image(st.dets[n], st.d) ELSE st.imgs[n]],
                           !.gen = [n \in regen \cup keep |-> IF n \in regen THEN st.d ELSE st.gen[n]],
                           !.torn = @ \cap keep],
             [op |-> "regenerate", o |-> o, arg |-> [n |-> "", s |-> Lost], ok |-> TRUE, ret |-> <<>>])

CopyOf(st) == [st EXCEPT !.dets = [n \in DOMAIN st.dets |-> IF st.dets[n].kind \in {"circle", "annular"} THEN st.dets[n] ELSE Lost],
                         !.imgs = [n \in {} |-> <<>>], !.gen = [n \in {} |-> 0], !.torn = {}]
\* B = A.copy()
Copy == /\ obj["A"].exists /\ ~obj["B"].exists
        /\ obj' = [obj EXCEPT !["B"] = CopyOf(obj["A"])]
        /\ last' = [op |-> "copy", o |-> "A", arg |-> [n |-> "", s |-> Lost], ok |-> TRUE, ret |-> <<>>]
        /\ Log([op |-> "copy", o |-> "A", arg |-> [n |-> "", s |-> Lost], ok |-> TRUE, ret |-> <<>>, post |-> obj'])
\* crop of the diffraction patterns, in place: the registry is untouched (images become stale until regenerated)
CropInPlace(o) ==
  /\ obj[o].exists /\ obj[o].d > 2
  /\ Step(o, [obj[o] EXCEPT !.d = @ - 1], [op |-> "crop_in_place", o |-> o, arg |-> [n |-> "", s |-> Lost], ok |-> TRUE, ret |-> <<>>])
\* B = A.crop(...): a copy, cropped
CropCopy == /\ obj["A"].exists /\ ~obj["B"].exists /\ obj["A"].d > 2
            /\ obj' = [obj EXCEPT !["B"] = [CopyOf(obj["A"]) EXCEPT !.d = @ - 1]]
            /\ last' = [op |-> "crop_copy", o |-> "A", arg |-> [n |-> "", s |-> Lost], ok |-> TRUE, ret |-> <<>>]
            /\ Log([op |-> "crop_copy", o |-> "A", arg |-> [n |-> "", s |-> Lost], ok |-> TRUE, ret |-> <<>>, post |-> obj'])

Next == /\ TRUE
        /\ \/ \E o \in Objs, n \in Names, s \in Specs, a \in BOOLEAN : Get(o, n, s, a)
           \/ \E o \in Objs, n \in Names, s \in Specs : Update(o, n, s)
           \/ \E o \in Objs : ClearImages(o) \/ ClearAll(o) \/ Regenerate(o) \/ CropInPlace(o)
           \/ Copy \/ CropCopy
Spec == Init /\ [][Next]_vars

---------------------------------------------------------------------------
\* every attached image has a detector entry that can explain it
ImagesHaveDetectors == \A o \in Objs : DOMAIN obj[o].imgs \subseteq DOMAIN obj[o].dets /\ DOMAIN obj[o].gen = DOMAIN obj[o].imgs
\* an attached image is the masked sum of its detector on the data it was formed from
ImageIsMaskedSum ==
  \A o \in Objs : \A n \in DOMAIN obj[o].imgs :
     n \notin obj[o].torn =>
       /\ obj[o].dets[n].kind # "lost"
       /\ Usable(obj[o].dets[n], obj[o].gen[n])
       /\ obj[o].imgs[n] = Image(obj[o].dets[n], obj[o].gen[n])
\* what one would want: no detector entry ever disagrees with its attached image.  NOT an invariant of the code
\* (update_virtual_detector is not exception-safe); checked by VirtualTorn.cfg, which must report a violation.
NoTornEntries == \A o \in Objs : obj[o].torn = {}
\* after regenerate every image belongs to the current pattern shape and every mode/geometry detector has one
FreshAfterRegenerate ==
  last.op = "regenerate" =>
     LET st == obj[last.o] IN
       /\ \A n \in DOMAIN st.imgs : st.gen[n] = st.d
       /\ \A n \in DOMAIN st.dets : st.dets[n].kind \in {"circle", "annular"} => n \in DOMAIN st.imgs
\* a copy never carries a custom mask or an image over, and an operation on one object leaves the other untouched
Independent == [][\A o \in Objs : (last'.o # o /\ last'.op \notin {"copy", "crop_copy"}) => obj'[o] = obj[o]]_vars

Bound == TLCGet("level") <= MaxLen + 1
Emit == (Record /\ Len(hist) = MaxLen) => PrintT(<<"CASE", ToJson(hist)>>)
=============================================================================
