SPECIFICATION Spec
CONSTANTS D0 = 3
          NP = 2
          MaxLen = 4
          Record = FALSE
          Bug = "none"
CONSTRAINT Bound
INVARIANT ImagesHaveDetectors
INVARIANT ImageIsMaskedSum
INVARIANT FreshAfterRegenerate
PROPERTY Independent
