SPECIFICATION Spec
CONSTANTS D0 = 3
          NP = 2
          MaxLen = 3
          Record = TRUE
          Bug = "none"
CONSTRAINT Bound
INVARIANT ImagesHaveDetectors
INVARIANT ImageIsMaskedSum
INVARIANT FreshAfterRegenerate
INVARIANT Emit
