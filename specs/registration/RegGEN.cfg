SPECIFICATION Spec
CONSTANTS H = 4
          W = 5
          SignBug = FALSE
INVARIANT Emit
