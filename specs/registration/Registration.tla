----------------------------- MODULE Registration -----------------------------
(***************************************************************************)
(* Image registration by circular cross-correlation (property C13), exact  *)
(* integer arithmetic.                                                     *)
(*                                                                         *)
(* An image is a function on the periodic cell (0..H-1) x (0..W-1).  For a *)
(* reference a and a moving image b the circular cross-correlation is      *)
(*     CC[d] = SUM_x a[x + d] * b[x]                                       *)
(* The estimate is the (unique) arg-max d, reported in the principal cell  *)
(* [-N/2, N/2) per axis (-N/2 and +N/2 are the same shift).  Convention:   *)
(* translating b by the estimate reproduces a.  If b = Translate(a, -s)    *)
(* (b[x] = a[x + s]) the estimate is s.                                    *)
(*                                                                         *)
(* The machine registers a chain: pick an image, apply a shift, estimate,  *)
(* then swap the roles; invariants: Recovers, ZeroOnIdentical, SwapNegates. *)
(***************************************************************************)
EXTENDS Integers, Sequences, FiniteSets, TLC, Json

CONSTANTS H, W, SignBug      \* SignBug: negative control (estimate reported with the wrong sign)

Cell == (0..(H - 1)) \X (0..(W - 1))
VARIABLES par, s, est, estSwap, phase
vars == <<par, s, est, estSwap, phase>>

\* image family: small non-negative integers with a bright pixel (breaks periodicity)
Img(p, r, c) == (((p.a * r) + (p.b * c) + (p.d * r * c) + (p.e * r * r)) % 4)
                + (IF r = p.g /\ c = p.h THEN 6 ELSE 0) + (IF r = (p.g + 1) % H /\ c = (p.h + 2) % W THEN 3 ELSE 0)
A(r, c) == Img(par, r % H, c % W)
\* moving image: the reference translated by -s   (B[x] = A[x + s])
B(r, c) == A(r + s[1], c + s[2])

Term(i, d, swap) == LET r == i \div W  c == i % W IN
                    IF swap THEN B(r + d[1], c + d[2]) * A(r, c) ELSE A(r + d[1], c + d[2]) * B(r, c)
CC(d, swap) == LET F[i \in 0..(H * W)] == IF i = 0 THEN 0 ELSE F[i - 1] + Term(i - 1, d, swap) IN F[H * W]
CCTab(swap) == [d \in Cell |-> CC(d, swap)]
UniqueMaxT(t) == \E d \in Cell : \A e \in Cell : e # d => t[e] < t[d]
ArgMaxT(t) == CHOOSE d \in Cell : \A e \in Cell : t[e] <= t[d]

\* principal cell
Prin(v, n) == LET m == v % n IN IF 2 * m >= n THEN m - n ELSE m
Principal(d) == <<Prin(d[1], H), Prin(d[2], W)>>
\* two shifts are the same translation (N/2 == -N/2)
SameShift(x, y) == (x[1] - y[1]) % H = 0 /\ (x[2] - y[2]) % W = 0

Params == [a : {0, 1}, b : {0, 1, 2}, d : {0, 1}, e : {0, 1}, g : {0, 1}, h : {0, 2}]

Init == /\ par \in Params /\ s \in Cell /\ est = <<0, 0>> /\ estSwap = <<0, 0>> /\ phase = "new"

Register ==
  /\ phase = "new"
  /\ LET t == CCTab(FALSE) IN
       /\ UniqueMaxT(t)
       /\ est' = IF SignBug THEN Principal(<<-ArgMaxT(t)[1], -ArgMaxT(t)[2]>>) ELSE Principal(ArgMaxT(t))
  /\ phase' = "registered" /\ UNCHANGED <<par, s, estSwap>>
Swap ==
  /\ phase = "registered"
  /\ LET t == CCTab(TRUE) IN UniqueMaxT(t) /\ estSwap' = Principal(ArgMaxT(t))
  /\ phase' = "swapped" /\ UNCHANGED <<par, s, est>>
Next == Register \/ Swap
Spec == Init /\ [][Next]_vars

Recovers == phase \in {"registered", "swapped"} => SameShift(est, s)
ZeroOnIdentical == (phase \in {"registered", "swapped"} /\ s = <<0, 0>>) => est = <<0, 0>>
SwapNegates == phase = "swapped" => SameShift(estSwap, <<-est[1], -est[2]>>)
\* translating b by the estimate reproduces a
Aligns == phase \in {"registered", "swapped"} =>
            \A x \in Cell : B(x[1] - est[1], x[2] - est[2]) = A(x[1], x[2])

Emit == phase = "registered" =>
  PrintT(<<"CASE", ToJson([h |-> H, w |-> W, s |-> s, est |-> est,
                           a |-> [r \in 1..H |-> [c \in 1..W |-> A(r - 1, c - 1)]],
                           b |-> [r \in 1..H |-> [c \in 1..W |-> B(r - 1, c - 1)]]])>>)
=============================================================================
