SPECIFICATION MCSpec
CONSTANTS LegacyC = {"meta"}
          Record = FALSE
          MaxLen = 4
          MaxVecs = 3
          Rich = FALSE
CONSTRAINT Bound
INVARIANT InvCells
INVARIANT InvSchema
INVARIANT InvNoSharing
INVARIANT FlattenRoundTrip
PROPERTY SliceAddresses
