------------------------------ MODULE VectorMC ------------------------------
(* Bounded instance of VectorHeap: operation alphabet, design properties,    *)
(* and script export (Record = TRUE) for the driver.                          *)
EXTENDS Integers, Sequences, FiniteSets, TLC, Json

CONSTANTS LegacyC, Record, MaxLen, MaxVecs, Rich
VARIABLES arrays, dicts, vecs, hist, act
INSTANCE VectorHeap WITH Legacy <- LegacyC
allvars == <<arrays, dicts, vecs, hist, act>>

I(a) == [t |-> "int", a |-> a, b |-> 0, c |-> 1, l |-> <<>>]
S(a, b, c) == [t |-> "slice", a |-> a, b |-> b, c |-> c, l |-> <<>>]
L(l) == [t |-> "list", a |-> 0, b |-> 0, c |-> 1, l |-> l]
All == [t |-> "all", a |-> 0, b |-> 0, c |-> 1, l |-> <<>>]

Shapes == IF Rich THEN {<<2>>, <<3>>, <<2, 2>>, <<3, 2>>, <<2, 2, 2>>} ELSE {<<2>>, <<2, 2>>, <<2, 2, 2>>}
Rows(n, nf, base) == [r \in 1..n |-> [c \in 1..nf |-> base + (10 * r) + c]]

\* index expressions per dimensionality (no repeated indices inside lists)
SingleIdx(shape) ==
  IF Len(shape) = 1 THEN {<<I(i)>> : i \in 0..(shape[1] - 1)}
  ELSE IF Len(shape) = 2 THEN {<<I(i), I(j)>> : i \in 0..(shape[1] - 1), j \in 0..(shape[2] - 1)}
  ELSE {<<I(i), I(j), I(k)>> : i \in {0, shape[1] - 1}, j \in 0..(shape[2] - 1), k \in {0, shape[3] - 1}}
MultiIdx(shape) ==
  IF Len(shape) = 1 THEN {<<S(0, 2, 1)>>, <<L(<<1, 0>>)>>, <<S(1, shape[1], 1)>>, <<All>>}
  ELSE IF Len(shape) = 2 THEN {<<S(0, 2, 1), I(1)>>, <<I(0), All>>, <<L(<<1, 0>>), I(0)>>, <<All, S(0, 1, 1)>>,
                               <<S(1, shape[1], 1), L(<<1, 0>>)>>, <<I(1)>>}
  ELSE {<<I(1), S(0, 2, 1), I(0)>>, <<All, I(1), L(<<1, 0>>)>>, <<I(0)>>, <<S(0, 1, 1), All, I(1)>>,
        <<L(<<1, 0>>), I(0), I(1)>>}
NumAddr(vi, idx) == Len(Addressed(vecs[vi], idx))

Log(e) == act' = e /\ hist' = IF Record THEN Append(hist, e) ELSE hist
Ev(op, vi, idx, rows, n1, n2) == [op |-> op, v |-> vi, idx |-> idx, rows |-> rows, n1 |-> n1, n2 |-> n2]
NoIdx == <<>>

DoFromShape == \E sh \in Shapes, nf \in {1, 2} :
   /\ Len(vecs) < MaxVecs /\ FromShape(sh, nf) /\ Log(Ev("from_shape", 0, NoIdx, <<>>, nf, 0) @@ [shape |-> sh])
DoFromData == \E nf \in {1, 2} : \E rl \in {<<Rows(1, nf, 0), Rows(0, nf, 0)>>, <<Rows(2, nf, 100), Rows(1, nf, 0), Rows(1, nf, 200)>>} :
   /\ Len(vecs) < MaxVecs /\ FromData(nf, rl) /\ Log(Ev("from_data", 0, NoIdx, rl, nf, 0) @@ [shape |-> <<>>])
DoSetOne == \E vi \in DOMAIN vecs : \E idx \in SingleIdx(vecs[vi].shape) : \E n \in {0, 1, 2} :
   LET rl == <<Rows(n, Len(vecs[vi].fields), 300)>> IN
   /\ SetCells(vi, idx, rl) /\ Log(Ev("set", vi, idx, rl, 0, 0) @@ [shape |-> <<>>])
DoSetMany == \E vi \in DOMAIN vecs : \E idx \in MultiIdx(vecs[vi].shape) :
   LET k == NumAddr(vi, idx)
       rl == [j \in 1..k |-> Rows(IF j = 1 THEN 2 ELSE IF j = k THEN 0 ELSE 1, Len(vecs[vi].fields), 400 + j)]
   IN /\ InBounds(vecs[vi], idx) /\ k >= 1
      /\ SetCells(vi, idx, rl) /\ Log(Ev("set", vi, idx, rl, 0, 0) @@ [shape |-> <<>>])
DoFieldOp == \E vi \in DOMAIN vecs : \E col \in 1..Len(vecs[vi].fields) : \E op \in {"add", "mul"} :
   /\ Reach(vecs[vi]) # {}
   /\ FieldOp(vi, col, op, 2) /\ Log(Ev(op, vi, NoIdx, <<>>, col, 2) @@ [shape |-> <<>>])
DoSetFlat == \E vi \in DOMAIN vecs : \E col \in 1..Len(vecs[vi].fields) :
   LET old == FlatCol(vecs[vi], col)
       vals == [i \in DOMAIN old |-> old[i] + (7 * i)]
   IN /\ Len(old) >= 1 /\ SetFlattened(vi, col, vals)
      /\ Log(Ev("set_flattened", vi, NoIdx, <<vals>>, col, 0) @@ [shape |-> <<>>])
Avail(v) == SelectSeq(FieldNames, LAMBDA n : n \notin SeqSet(v.fields))
DoAddFields == \E vi \in DOMAIN vecs : \E k \in {1, 2} :
   LET names == SubSeq(Avail(vecs[vi]), 1, k) IN
   /\ Len(Avail(vecs[vi])) >= k /\ Len(vecs[vi].fields) + k <= 3 /\ AddFields(vi, names)
   /\ Log(Ev("add_fields", vi, NoIdx, <<>>, k, 0) @@ [shape |-> names])
DoRemoveFields == \E vi \in DOMAIN vecs : \E col \in 1..Len(vecs[vi].fields) :
   /\ Len(vecs[vi].fields) >= 2 /\ RemoveFields(vi, {col})
   /\ Log(Ev("remove_fields", vi, NoIdx, <<>>, col, 0) @@ [shape |-> <<>>])
DoCopy == \E vi \in DOMAIN vecs : Len(vecs) < MaxVecs /\ Copy(vi) /\ Log(Ev("copy", vi, NoIdx, <<>>, 0, 0) @@ [shape |-> <<>>])
DoSlice == \E vi \in DOMAIN vecs : \E idx \in MultiIdx(vecs[vi].shape) :
   /\ Len(vecs) < MaxVecs /\ Slice(vi, idx) /\ Log(Ev("slice", vi, idx, <<>>, 0, 0) @@ [shape |-> <<>>])
DoMetaPut == \E vi \in DOMAIN vecs : \E key \in {"k1"} :
   /\ key \notin dicts[vecs[vi].meta] /\ MetaPut(vi, key) /\ Log(Ev("meta_put", vi, NoIdx, <<>>, 0, 0) @@ [shape |-> <<>>])

MCInit == Init /\ hist = <<>> /\ act = [op |-> "init"]
MCNext == DoFromShape \/ DoFromData \/ DoSetOne \/ DoSetMany \/ DoFieldOp \/ DoSetFlat \/ DoAddFields
          \/ DoRemoveFields \/ DoCopy \/ DoSlice \/ DoMetaPut
MCSpec == MCInit /\ [][MCNext]_allvars
Bound == TLCGet("level") <= MaxLen

---------------------------------------------------------------------------
InvCells == CellsWellFormed
InvSchema == Schema
S1 == \A i \in DOMAIN vecs : Len(vecs[i].units) = Len(vecs[i].fields)
S2 == \A i \in DOMAIN vecs : \A p, q \in DOMAIN vecs[i].fields : p # q => vecs[i].fields[p] # vecs[i].fields[q]
S3 == \A i \in DOMAIN vecs : Len(vecs[i].cells) = Prod(vecs[i].shape)
InvNoSharing == NoSharing

\* slicing returns exactly the addressed cells (contents), for 1, 2 and 3 fixed dimensions;
\* the formula is written independently of Addressed/Tuples
Content(ar, a) == IF a = 0 THEN <<"unset">> ELSE ar[a].rows
IdxList(ix, n) == IF ix.t = "int" THEN <<ix.a>> ELSE IF ix.t = "list" THEN ix.l
                  ELSE IF ix.t = "slice" THEN [j \in 1..((IF ix.b > n THEN n ELSE ix.b) - ix.a) |-> ix.a + j - 1]
                  ELSE [j \in 1..n |-> j - 1]
SliceAddresses ==
  [][ act'.op = "slice" =>
        LET src == vecs[act'.v]
            new == vecs'[Len(vecs')]
            ix(d) == IF d <= Len(act'.idx) THEN act'.idx[d] ELSE All
            sel(d) == IdxList(ix(d), src.shape[d])
            nd == Len(src.shape)
        IN /\ new.shape = [d \in 1..nd |-> Len(sel(d))]
           /\ IF nd = 1 THEN \A i \in 1..Len(sel(1)) :
                    Content(arrays', new.cells[i]) = Content(arrays, src.cells[sel(1)[i] + 1])
              ELSE IF nd = 2 THEN \A i \in 1..Len(sel(1)), j \in 1..Len(sel(2)) :
                    Content(arrays', new.cells[((i - 1) * Len(sel(2))) + j])
                      = Content(arrays, src.cells[(sel(1)[i] * src.shape[2]) + sel(2)[j] + 1])
              ELSE \A i \in 1..Len(sel(1)), j \in 1..Len(sel(2)), k \in 1..Len(sel(3)) :
                    Content(arrays', new.cells[((((i - 1) * Len(sel(2))) + (j - 1)) * Len(sel(3))) + k])
                      = Content(arrays, src.cells[(((sel(1)[i] * src.shape[2]) + sel(2)[j]) * src.shape[3]) + sel(3)[k] + 1])
    ]_allvars

\* writing a field's flattened view back restores the same data
FlattenRoundTrip ==
  \A vi \in DOMAIN vecs : \A col \in 1..Len(vecs[vi].fields) :
     LET v == vecs[vi]  vals == FlatCol(v, col) IN
     \A a \in Reach(v) : \A r \in DOMAIN arrays[a].rows :
        LET k == CHOOSE kk \in DOMAIN v.cells : v.cells[kk] = a
            off == Len(Concat([j \in 1..(k - 1) |-> IF v.cells[j] = 0 THEN <<>> ELSE arrays[v.cells[j]].rows]))
        IN vals[off + r] = arrays[a].rows[r][col]

Emit == (Record /\ Len(hist) = MaxLen) => PrintT(<<"CASE", ToJson(hist)>>)
=============================================================================
