SPECIFICATION MCSpec
CONSTANTS LegacyC = {}
          Record = FALSE
          MaxLen = 3
          MaxVecs = 3
          Rich = FALSE
CONSTRAINT Bound
INVARIANT InvCells
INVARIANT InvSchema
INVARIANT InvNoSharing
INVARIANT FlattenRoundTrip
PROPERTY SliceAddresses
