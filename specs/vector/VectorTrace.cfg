SPECIFICATION TSpec
CONSTRAINT Progress
POSTCONDITION AllAccepted
CHECK_DEADLOCK FALSE
