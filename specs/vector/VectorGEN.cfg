SPECIFICATION MCSpec
CONSTANTS LegacyC = {}
          Record = TRUE
          MaxLen = 3
          MaxVecs = 3
          Rich = FALSE
CONSTRAINT Bound
INVARIANT Emit
