----------------------------- MODULE VectorHeap -----------------------------
(***************************************************************************)
(* Heap model of quantem's ragged Vector (property C11).                   *)
(*                                                                         *)
(* The class stores *references* to NumPy arrays in nested lists, so the   *)
(* abstract state is a heap:                                               *)
(*   arrays : array id -> [nc, rows]      (rows: sequence of integer rows) *)
(*   dicts  : dict id  -> set of keys     (metadata objects)               *)
(*   vecs   : sequence of vectors [shape, fields, units, cells, meta, fam] *)
(*            cells: row-major sequence of array ids, 0 = unset cell       *)
(* States are kept in CANONICAL form (array ids numbered by first          *)
(* appearance when the vectors are traversed in creation order, cells in   *)
(* row-major order; garbage dropped), so that the projection recorded from *)
(* the implementation - object identities mapped to small ids by the same  *)
(* traversal - can be compared for equality.                               *)
(*                                                                         *)
(* Where the property is silent the action is nondeterministic: a slice    *)
(* may share the addressed arrays with its source (what the code does: a   *)
(* "view") or copy them; a copy may or may not carry the metadata keys.    *)
(***************************************************************************)
EXTENDS Integers, Sequences, FiniteSets, TLC

CONSTANT Legacy        \* subset of {"meta", "slice2d", "addshare"}  (negative controls)

VARIABLES arrays, dicts, vecs
hvars == <<arrays, dicts, vecs>>

FieldNames == <<"fa", "fb", "fc", "fd">>
Prod(s) == IF Len(s) = 0 THEN 1 ELSE IF Len(s) = 1 THEN s[1] ELSE IF Len(s) = 2 THEN s[1] * s[2] ELSE s[1] * s[2] * s[3]
SeqSet(s) == {s[i] : i \in DOMAIN s}

\* ---- index algebra -------------------------------------------------------
\* an axis index is [t |-> "int", a |-> i] | [t |-> "slice", a, b, c] | [t |-> "list", l |-> <<..>>] | [t |-> "all"]
RECURSIVE RangeSeq(_, _, _)
RangeSeq(a, b, c) == IF a >= b THEN <<>> ELSE <<a>> \o RangeSeq(a + c, b, c)
Sel(ix, n) ==
  CASE ix.t = "int" -> <<ix.a>>
    [] ix.t = "slice" -> RangeSeq(ix.a, IF ix.b > n THEN n ELSE ix.b, ix.c)
    [] ix.t = "list" -> ix.l
    [] OTHER -> RangeSeq(0, n, 1)
\* row-major linear position (1-based) of a 0-based index tuple
Lin(shape, t) ==
  IF Len(shape) = 1 THEN t[1] + 1
  ELSE IF Len(shape) = 2 THEN (t[1] * shape[2]) + t[2] + 1
  ELSE (((t[1] * shape[2]) + t[2]) * shape[3]) + t[3] + 1
\* all addressed index tuples, in np.ndindex (row-major) order of the selection
Tuples(sels) ==
  IF Len(sels) = 1 THEN [i \in 1..Len(sels[1]) |-> <<sels[1][i]>>]
  ELSE IF Len(sels) = 2
       THEN [k \in 1..(Len(sels[1]) * Len(sels[2])) |->
               <<sels[1][((k - 1) \div Len(sels[2])) + 1], sels[2][((k - 1) % Len(sels[2])) + 1]>>]
       ELSE [k \in 1..(Len(sels[1]) * Len(sels[2]) * Len(sels[3])) |->
               <<sels[1][((k - 1) \div (Len(sels[2]) * Len(sels[3]))) + 1],
                 sels[2][(((k - 1) \div Len(sels[3])) % Len(sels[2])) + 1],
                 sels[3][((k - 1) % Len(sels[3])) + 1]>>]
Sels(v, idx) == [d \in 1..Len(v.shape) |-> Sel(IF d <= Len(idx) THEN idx[d] ELSE [t |-> "all"], v.shape[d])]
Addressed(v, idx) == LET tp == Tuples(Sels(v, idx)) IN [k \in DOMAIN tp |-> Lin(v.shape, tp[k])]
InBounds(v, idx) == \A d \in 1..Len(v.shape) : \A j \in SeqSet(Sels(v, idx)[d]) : j >= 0 /\ j < v.shape[d]

\* pinned-tree slicing: hard-wired to two dimensions
LegacyAddressed(v, idx) ==
  LET tp == Tuples(Sels(v, idx)) IN
  [k \in DOMAIN tp |-> IF Len(v.shape) = 3 THEN Lin(v.shape, <<tp[k][1], tp[k][2], 0>>)  \* wrong cells
                       ELSE Lin(v.shape, tp[k])]

\* ---- heap helpers --------------------------------------------------------
FreshIds(k) == [i \in 1..k |-> Len(arrays) + i]
MkArr(nc, rows) == [nc |-> nc, rows |-> rows]
Reach(v) == SeqSet(v.cells) \ {0}

\* canonical form: renumber arrays by first appearance, drop garbage
Dedup(s) ==
  LET F[i \in 0..Len(s)] == IF i = 0 THEN <<>>
                            ELSE IF s[i] = 0 \/ s[i] \in SeqSet(F[i - 1]) THEN F[i - 1] ELSE Append(F[i - 1], s[i])
  IN F[Len(s)]
Concat(ss) ==
  LET F[i \in 0..Len(ss)] == IF i = 0 THEN <<>> ELSE F[i - 1] \o ss[i] IN F[Len(ss)]
PosOf(s, x) == CHOOSE i \in DOMAIN s : s[i] = x
Canon(ar, dc, vs) ==
  LET order == Dedup(Concat([i \in DOMAIN vs |-> vs[i].cells]))
      dorder == Dedup([i \in DOMAIN vs |-> vs[i].meta])
      ren(a) == IF a = 0 THEN 0 ELSE PosOf(order, a)
  IN [arrays |-> [i \in DOMAIN order |-> ar[order[i]]],
      dicts  |-> [i \in DOMAIN dorder |-> dc[dorder[i]]],
      vecs   |-> [i \in DOMAIN vs |-> [vs[i] EXCEPT !.cells = [k \in DOMAIN @ |-> ren(@[k])],
                                                    !.meta = PosOf(dorder, @)]]]
Install(c) == arrays' = c.arrays /\ dicts' = c.dicts /\ vecs' = c.vecs

NewVec(shape, nf, cells, meta, fam) ==
  [shape |-> shape, fields |-> SubSeq(FieldNames, 1, nf), units |-> [i \in 1..nf |-> "none"],
   cells |-> cells, meta |-> meta, fam |-> fam]
NextFam == IF vecs = <<>> THEN 1 ELSE 1 + (CHOOSE m \in {vecs[i].fam : i \in DOMAIN vecs} :
                                              \A j \in DOMAIN vecs : vecs[j].fam <= m)

\* the metadata dict of a new vector: its own fresh dict (pinned tree: one shared default)
MetaFor(keys) ==
  IF "meta" \in Legacy /\ dicts # <<>> THEN [id |-> 1, dicts |-> dicts]
  ELSE [id |-> Len(dicts) + 1, dicts |-> Append(dicts, keys)]

---------------------------------------------------------------------------
(* Actions.  Array contents come with the script: `rowsList` is a sequence  *)
(* of row sequences (fresh arrays).                                         *)

Init == arrays = <<>> /\ dicts = <<>> /\ vecs = <<>>

FromShape(shape, nf) ==
  LET m == MetaFor({}) IN
  Install(Canon(arrays, m.dicts,
                Append(vecs, NewVec(shape, nf, [k \in 1..Prod(shape) |-> 0], m.id, NextFam))))

FromData(nf, rowsList) ==
  LET m == MetaFor({})
      ids == FreshIds(Len(rowsList))
  IN Install(Canon(arrays \o [i \in DOMAIN rowsList |-> MkArr(nf, rowsList[i])], m.dicts,
                   Append(vecs, NewVec(<<Len(rowsList)>>, nf, ids, m.id, NextFam))))

\* cell / slice / fancy assignment of fresh arrays (k-th array to the k-th addressed cell)
SetCells(vi, idx, rowsList) ==
  LET v == vecs[vi]
      addr == Addressed(v, idx)
      ids == FreshIds(Len(rowsList))
      nf == Len(v.fields)
  IN /\ InBounds(v, idx) /\ Len(addr) = Len(rowsList)
     /\ \A i \in DOMAIN rowsList : \A r \in DOMAIN rowsList[i] : Len(rowsList[i][r]) = nf
     /\ Install(Canon(arrays \o [i \in DOMAIN rowsList |-> MkArr(nf, rowsList[i])], dicts,
                      [vecs EXCEPT ![vi].cells =
                          [k \in DOMAIN @ |-> IF \E j \in DOMAIN addr : addr[j] = k
                                              THEN ids[CHOOSE j \in DOMAIN addr : addr[j] = k /\ \A j2 \in DOMAIN addr : addr[j2] = k => j2 <= j]
                                              ELSE @[k]]]))

\* field arithmetic: applied to every array reachable from the vector (fancy lists in the
\* scripts never repeat an index, so no array is reachable twice from one vector)
ApplyCol(a, col, f(_)) == [a EXCEPT !.rows = [r \in DOMAIN @ |-> [@[r] EXCEPT ![col] = f(@)]]]
FieldOp(vi, col, op, c) ==
  LET v == vecs[vi]
      F(x) == CASE op = "add" -> x + c [] op = "sub" -> x - c [] OTHER -> x * c
  IN /\ col \in 1..Len(v.fields)
     /\ Install(Canon([a \in DOMAIN arrays |-> IF a \in Reach(v) THEN ApplyCol(arrays[a], col, F) ELSE arrays[a]],
                      dicts, vecs))

\* the flattened view of a field: row-major concatenation of that column over all cells
FlatCol(v, col) == Concat([k \in DOMAIN v.cells |->
                     IF v.cells[k] = 0 THEN <<>>
                     ELSE [r \in DOMAIN arrays[v.cells[k]].rows |-> arrays[v.cells[k]].rows[r][col]]])
FlatAll(v) == Concat([k \in DOMAIN v.cells |-> IF v.cells[k] = 0 THEN <<>> ELSE arrays[v.cells[k]].rows])

\* set_flattened: write a 1-D sequence back in the same order
SetFlattened(vi, col, vals) ==
  LET v == vecs[vi]
      offs == [k \in DOMAIN v.cells |->
                 Len(Concat([j \in 1..(k - 1) |-> IF v.cells[j] = 0 THEN <<>> ELSE arrays[v.cells[j]].rows]))]
      cellOf(a) == CHOOSE k \in DOMAIN v.cells : v.cells[k] = a
  IN /\ col \in 1..Len(v.fields) /\ Len(vals) = Len(FlatCol(v, col))
     /\ Install(Canon([a \in DOMAIN arrays |->
                         IF a \in Reach(v)
                         THEN [arrays[a] EXCEPT !.rows = [r \in DOMAIN @ |-> [@[r] EXCEPT ![col] = vals[offs[cellOf(a)] + r]]]]
                         ELSE arrays[a]], dicts, vecs))

\* add_fields / remove_fields rebuild every reachable array (fresh objects): other vectors
\* that shared the old arrays keep them unchanged
Rebuild(vi, G(_), newFields, newUnits) ==
  LET v == vecs[vi]
      old == Dedup(v.cells)
      ids == FreshIds(Len(old))
      newOf(a) == ids[PosOf(old, a)]
  IN Install(Canon(arrays \o [i \in DOMAIN old |-> G(arrays[old[i]])], dicts,
                   [vecs EXCEPT ![vi] = [@ EXCEPT !.fields = newFields, !.units = newUnits,
                                                  !.cells = [k \in DOMAIN @ |-> IF @[k] = 0 THEN 0 ELSE newOf(@[k])]]]))
AddFields(vi, names) ==       \* names: sequence of new, pairwise different field names (a list naming ANY existing
                              \* field is refused as a whole and is a stuttering step: the replay tries one first)
  LET v == vecs[vi]  nf == Len(v.fields)  k == Len(names)
      G(a) == MkArr(nf + k, [r \in DOMAIN a.rows |-> a.rows[r] \o [j \in 1..k |-> 0]])
  IN /\ SeqSet(names) \cap SeqSet(v.fields) = {} /\ Cardinality(SeqSet(names)) = k /\ k >= 1
     /\ IF "addshare" \in Legacy
        THEN Install(Canon([a \in DOMAIN arrays |-> IF a \in Reach(v) THEN G(arrays[a]) ELSE arrays[a]], dicts,
                           [vecs EXCEPT ![vi].fields = v.fields \o names,
                                        ![vi].units = v.units \o [j \in 1..k |-> "none"]]))
        ELSE Rebuild(vi, G, v.fields \o names, v.units \o [j \in 1..k |-> "none"])
RemoveFields(vi, cols) ==   \* cols: set of column positions to drop
  LET v == vecs[vi]  nf == Len(v.fields)
      keep == SelectSeq([i \in 1..nf |-> i], LAMBDA i : i \notin cols)
      G(a) == MkArr(Len(keep), [r \in DOMAIN a.rows |-> [j \in DOMAIN keep |-> a.rows[r][keep[j]]]])
  IN /\ cols \subseteq 1..nf /\ cols # {} /\ Len(keep) >= 1
     /\ Rebuild(vi, G, [j \in DOMAIN keep |-> v.fields[keep[j]]], [j \in DOMAIN keep |-> v.units[keep[j]]])

\* copy: deep copy of every cell, own metadata object (keys kept or not: unspecified)
Copy(vi) ==
  LET v == vecs[vi]
      old == Dedup(v.cells)
      ids == FreshIds(Len(old))
  IN \E keys \in {{}, dicts[v.meta]} :
       LET m == MetaFor(keys) IN
       Install(Canon(arrays \o [i \in DOMAIN old |-> arrays[old[i]]], m.dicts,
                     Append(vecs, [v EXCEPT !.cells = [k \in DOMAIN @ |-> IF @[k] = 0 THEN 0 ELSE ids[PosOf(old, @[k])]],
                                            !.meta = m.id, !.fam = NextFam])))

\* slicing: a new vector holding exactly the addressed cells (shared or copied)
Slice(vi, idx) ==
  LET v == vecs[vi]
      sels == Sels(v, idx)
      addr == IF "slice2d" \in Legacy THEN LegacyAddressed(v, idx) ELSE Addressed(v, idx)
      newShape == [d \in 1..Len(v.shape) |-> Len(sels[d])]
      picked == [k \in DOMAIN addr |-> IF addr[k] = 0 THEN 0 ELSE v.cells[addr[k]]]
      old == Dedup(picked)
      ids == FreshIds(Len(old))
      m == MetaFor({})
  IN /\ InBounds(v, idx) /\ Prod(newShape) >= 1
     /\ \E share \in BOOLEAN :
          IF share
          THEN Install(Canon(arrays, m.dicts, Append(vecs, [v EXCEPT !.shape = newShape, !.cells = picked,
                                                                   !.meta = m.id])))
          ELSE Install(Canon(arrays \o [i \in DOMAIN old |-> arrays[old[i]]], m.dicts,
                             Append(vecs, [v EXCEPT !.shape = newShape, !.meta = m.id, !.fam = NextFam,
                                                    !.cells = [k \in DOMAIN picked |-> IF picked[k] = 0 THEN 0
                                                                                       ELSE ids[PosOf(old, picked[k])]]])))

MetaPut(vi, key) ==
  Install(Canon(arrays, [dicts EXCEPT ![vecs[vi].meta] = @ \cup {key}], vecs))

---------------------------------------------------------------------------
(* Invariants *)
CellsWellFormed ==
  \A i \in DOMAIN vecs : \A a \in Reach(vecs[i]) :
     /\ arrays[a].nc = Len(vecs[i].fields)
     /\ \A r \in DOMAIN arrays[a].rows : Len(arrays[a].rows[r]) = Len(vecs[i].fields)
Schema ==
  \A i \in DOMAIN vecs :
     /\ Len(vecs[i].units) = Len(vecs[i].fields)
     /\ \A p, q \in DOMAIN vecs[i].fields : p # q => vecs[i].fields[p] # vecs[i].fields[q]
     /\ Len(vecs[i].cells) = Prod(vecs[i].shape)
\* copies and independently created vectors (different families) share no mutable state
NoSharing ==
  \A i, j \in DOMAIN vecs : i # j =>
     /\ vecs[i].meta # vecs[j].meta
     /\ vecs[i].fam # vecs[j].fam => Reach(vecs[i]) \cap Reach(vecs[j]) = {}
=============================================================================
