----------------------------- MODULE ConfigMC -----------------------------
(* Bounded instance of ConfigStore: a fixed key alphabet with two spellings  *)
(* for some keys, three nesting levels, and a small operation alphabet.      *)
(* Used (a) to model-check the design properties, (b) with Record = TRUE to  *)
(* generate operation scripts that the driver executes on the real module.   *)
EXTENDS Naturals, Sequences, FiniteSets, TLC, Json, ConfigKeys

CONSTANTS Record,      \* TRUE: carry the script history and print it at depth MaxLen
          MaxLen,      \* script length / exploration depth
          MaxStack,    \* maximal nesting of with-blocks
          Rich,        \* TRUE: larger operation alphabet
          GH           \* TRUE: include the group whose own name has two spellings (g-h / g_h)

FilesDef == (<<>> :> "MAP")

VARIABLES store, dflt, user, stack, hist, snaps, act
INSTANCE ConfigStore WITH Canon <- CanonDef, Leaves <- LeavesDef, Files <- FilesDef

allvars == <<store, dflt, user, stack, hist, snaps, act>>

Leaf(v) == <<[p |-> <<>>, v |-> v]>>
Vs == IF Rich THEN {"v1", "v2", "v3"} ELSE {"v1", "v2"}

\* GH: include the group with a two-spelling name (the deepest exhaustive run leaves it out: two more leaves
\* multiply the store states by 16)
GHPaths == IF GH THEN {<<"g-h", "z">>, <<"g_h", "r">>} ELSE {}
\* spelled leaf paths
LeafSp == IF Rich
          THEN {<<"p-q">>, <<"p_q">>, <<"r">>, <<"m", "x-y">>, <<"m", "x_y">>, <<"m", "z">>,
                <<"m", "n", "w-v">>, <<"m", "n", "w_v">>} \cup GHPaths
          \* (g-h / g_h: a GROUP whose own name has the two spellings; its two entries are each reached through
          \* the other spelling of the group)
          ELSE {<<"p-q">>, <<"p_q">>, <<"m", "x-y">>, <<"m", "x_y">>, <<"m", "z">>,
                <<"m", "n", "w_v">>} \cup GHPaths

\* whole-sub-map values (pairs relative to the assigned path)
MapVals(v) == { <<[p |-> <<>>, v |-> "MAP"]>>,
                <<[p |-> <<>>, v |-> "MAP"], [p |-> <<"x-y">>, v |-> v]>>,
                <<[p |-> <<>>, v |-> "MAP"], [p |-> <<"z">>, v |-> v], [p |-> <<"n">>, v |-> "MAP"]>> }
NVals(v) == { <<[p |-> <<>>, v |-> "MAP"]>>,
              <<[p |-> <<>>, v |-> "MAP"], [p |-> <<"w-v">>, v |-> v]>> }

SingleAssigns ==
  {[p |-> sp, v |-> Leaf(v)] : sp \in LeafSp, v \in Vs}
  \cup {[p |-> <<"m">>, v |-> mv] : mv \in UNION {MapVals(v) : v \in Vs}}
  \cup (IF Rich THEN {[p |-> <<"m", "n">>, v |-> nv] : nv \in UNION {NVals(v) : v \in Vs}} ELSE {})

\* multi-key calls (applied left to right)
PairAssigns ==
  { <<[p |-> <<"p_q">>, v |-> Leaf("v1")], [p |-> <<"p-q">>, v |-> Leaf("v2")]>>,
    <<[p |-> <<"m", "z">>, v |-> Leaf("v1")], [p |-> <<"m", "x_y">>, v |-> Leaf("v2")]>>,
    <<[p |-> <<"m">>, v |-> <<[p |-> <<>>, v |-> "MAP"]>>], [p |-> <<"m", "x-y">>, v |-> Leaf("v1")]>>,
    \* several keys in one call, a key that creates new sections first
    <<[p |-> <<"m", "n", "w_v">>, v |-> Leaf("v1")], [p |-> <<"p_q">>, v |-> Leaf("v2")], [p |-> <<"m", "z">>, v |-> Leaf("v1")]>>,
    <<[p |-> <<"m", "x_y">>, v |-> Leaf("v2")], [p |-> <<"p-q">>, v |-> Leaf("v1")]>>,
    <<[p |-> <<"p_q">>, v |-> Leaf("v1")], [p |-> <<"m", "n">>, v |-> <<[p |-> <<>>, v |-> "MAP"], [p |-> <<"w_v">>, v |-> "v2"]>>],
      [p |-> <<"m", "z">>, v |-> Leaf("v2")]>> }

AssignSeqs == {<<a>> : a \in SingleAssigns} \cup PairAssigns

\* defaults layers: trees given as pairs from the root
DefaultLayers ==
  LET R == [p |-> <<>>, v |-> "MAP"] M == [p |-> <<"m">>, v |-> "MAP"] IN
  UNION {{ <<R, [p |-> <<"p-q">>, v |-> v]>>,
           <<R, [p |-> <<"p_q">>, v |-> v]>>,
           <<R, M, [p |-> <<"m", "x-y">>, v |-> v]>>,
           <<R, M, [p |-> <<"m", "x_y">>, v |-> v], [p |-> <<"m", "z">>, v |-> "v1"]>>,
           <<R, M, [p |-> <<"m", "n">>, v |-> "MAP"], [p |-> <<"m", "n", "w-v">>, v |-> v]>> } : v \in Vs}
  \cup (IF Rich THEN {<<R, [p |-> <<"r">>, v |-> "v3"], [p |-> <<"device">>, v |-> "cpu"]>>} ELSE {})

Log(e) == act' = e /\ hist' = IF Record THEN Append(hist, e) ELSE hist
NoArgs == <<>>

DoSet(as)   == Set(AssignsOf(as))   /\ Log([op |-> "set", as |-> as, new |-> NoArgs]) /\ UNCHANGED snaps
DoEnter(as) == /\ Len(stack) < MaxStack
               /\ Enter(AssignsOf(as))
               /\ Log([op |-> "enter", as |-> as, new |-> NoArgs])
               /\ snaps' = Append(snaps, [t |-> store, as |-> AssignsOf(as)])
DoExit      == /\ Exit /\ Log([op |-> "exit", as |-> NoArgs, new |-> NoArgs])
               /\ snaps' = SubSeq(snaps, 1, Len(snaps) - 1)
DoUpd(new)  == UpdateDefaults(TreeOf(new)) /\ Log([op |-> "update_defaults", as |-> NoArgs, new |-> new])
               /\ UNCHANGED snaps
DoRefresh   == Refresh /\ Log([op |-> "refresh", as |-> NoArgs, new |-> NoArgs]) /\ UNCHANGED snaps
DoBadDev    == BadDevice /\ Log([op |-> "bad_device", as |-> NoArgs, new |-> NoArgs]) /\ UNCHANGED snaps

MCInit == Init /\ hist = <<>> /\ snaps = <<>> /\ act = [op |-> "init", as |-> NoArgs, new |-> NoArgs]
MCNext ==
  \/ \E as \in AssignSeqs : DoSet(as)
  \/ \E as \in AssignSeqs : DoEnter(as)
  \/ DoExit
  \/ \E new \in DefaultLayers : DoUpd(new)
  \/ DoRefresh
  \/ (Record /\ DoBadDev)
MCSpec == MCInit /\ [][MCNext]_allvars

Bound == TLCGet("level") <= MaxLen

---------------------------------------------------------------------------
(* Properties *)

InvTypeOK == TypeOK

\* nested updates never drop sibling keys (single assignment through Set)
SiblingsKept ==
  [][ act'.op = "set" =>
        LET as == act'.as IN
           \A q \in DOMAIN store :
                 (\A i \in DOMAIN as : ~IsPrefix(CanonPath(as[i].p), q)) =>
                     q \in DOMAIN store' /\ store'[q] = store[q] ]_allvars

\* get returns the most recently set value: after a set, every assigned leaf that
\* is not overwritten by a later assignment of the same call reads back
LastWriterWins ==
  [][ act'.op \in {"set", "enter"} =>
        LET as == AssignsOf(act'.as) IN
        \A i \in DOMAIN as :
          (\A j \in DOMAIN as : j > i => (~IsPrefix(as[j].p, as[i].p) /\ ~IsPrefix(as[i].p, as[j].p)))
            => \A r \in DOMAIN as[i].v : (as[i].p \o r) \in DOMAIN store'
                                          /\ store'[as[i].p \o r] = as[i].v[r] ]_allvars

\* refresh restores exactly the accumulated defaults
RefreshRestores ==
  [][ act'.op = "refresh" => store' = dflt ]_allvars

\* update_defaults never drops a key and never overrides a value the user set to
\* something different from the default in force
DefaultsRespectUser ==
  [][ act'.op = "update_defaults" =>
        /\ \A q \in DOMAIN store : q \in DOMAIN store'
        /\ \A q \in user : (q \notin DOMAIN dflt \/ dflt[q] # store[q]) => store'[q] = store[q]
        /\ \A q \in LeafPaths(dflt') \ LeafPaths(dflt) : q \notin DOMAIN store => store'[q] = dflt'[q]
    ]_allvars

\* leaving a with-block restores the previous value of every key the block's
\* set(...) touched, whatever happened in between
WithRestores ==
  [][ act'.op = "exit" =>
        LET s == snaps[Len(snaps)] IN
        \A i \in DOMAIN s.as :
          LET p == s.as[i].p IN
            /\ \A q \in DOMAIN s.t : IsPrefix(p, q) => (q \in DOMAIN store' /\ store'[q] = s.t[q])
            /\ \A q \in DOMAIN store' : IsPrefix(p, q) => q \in DOMAIN s.t
    ]_allvars

---------------------------------------------------------------------------
(* Negative controls: wrong variants that TLC must reject (cfg overrides).          *)

\* pinned-tree behaviour: leaving the with-block restores nothing
BadExit == /\ stack # <<>> /\ stack' = SubSeq(stack, 1, Len(stack) - 1)
           /\ UNCHANGED <<store, dflt, user>>
\* defaults overwrite everything (priority "new")
BadUpdateDefaults(new) ==
  /\ WellFormed(new) /\ Compatible(dflt, new) /\ Compatible(store, new)
  /\ dflt' = Merge(dflt, new) /\ store' = Merge(store, new) /\ UNCHANGED <<user, stack>>
\* a whole-map assignment that merges instead of replacing is fine, but one that
\* drops siblings on a *leaf* assignment is not
BadGraft(t, p, sub) ==
  LET keep == {q \in DOMAIN t : Len(q) < Len(p) \/ ~IsPrefix(SubSeq(p, 1, Len(p) - 1), q)}
      new  == {p \o r : r \in DOMAIN sub}
  IN  [q \in keep \cup Ancestors(p) \cup new |->
         IF q \in new THEN sub[Rel(p, q)] ELSE IF q \in Ancestors(p) THEN MAP ELSE t[q]]

RECURSIVE BadApplyAll(_, _)
BadApplyAll(t, as) ==
  IF as = <<>> THEN t ELSE BadApplyAll(BadGraft(t, Head(as).p, Head(as).v), Tail(as))
BadSet(as) ==
  /\ AllAssignable(store, as)
  /\ store' = BadApplyAll(store, as)
  /\ user' = {q \in user : q \in DOMAIN BadApplyAll(store, as)} \cup WrittenLeaves(store, as)
  /\ UNCHANGED <<dflt, stack>>

\* script export
Emit == (Record /\ Len(hist) = MaxLen) => PrintT(<<"CASE", ToJson(hist)>>)
=============================================================================
