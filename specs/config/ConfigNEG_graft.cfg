SPECIFICATION MCSpec
CONSTANTS Record = FALSE
          MaxLen = 4
          MaxStack = 2
          Rich = FALSE
          GH = TRUE
CONSTRAINT Bound
INVARIANT InvTypeOK
PROPERTY SiblingsKept
PROPERTY LastWriterWins
PROPERTY RefreshRestores
PROPERTY DefaultsRespectUser
PROPERTY WithRestores
CONSTANT Set <- BadSet
