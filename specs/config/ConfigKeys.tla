---------------------------- MODULE ConfigKeys ----------------------------
(* The key alphabet shared by the bounded model, the script generator, the   *)
(* driver (harness/c19.py) and the trace specification.                      *)
CanonDef == [k \in {"p-q", "p_q", "r", "m", "x-y", "x_y", "z", "n", "w-v", "w_v", "device", "q", "zz", "g-h", "g_h"} |->
               CASE k = "p-q" -> "p_q" [] k = "x-y" -> "x_y" [] k = "w-v" -> "w_v" [] k = "g-h" -> "g_h" [] OTHER -> k]
LeavesDef == {"v1", "v2", "v3", "cpu"}
=============================================================================
