---------------------------- MODULE ConfigTrace ----------------------------
(* Trace validation for C19: a batch of executions recorded from the real    *)
(* quantem.core.config (private config/defaults passed through the public    *)
(* parameters) is checked, event by event, against ConfigStore.  Each event  *)
(* carries the call's arguments (spelled keys), whether it raised, the       *)
(* complete observed configuration after the call and the results of get()   *)
(* for a set of spelled paths.  TLC resolves the nondeterminism of           *)
(* UpdateDefaults.  Acceptance: every trace consumed to its end.             *)
EXTENDS Naturals, Sequences, FiniteSets, TLC, Json, IOUtils, ConfigKeys

J == JsonDeserialize(IOEnv.TRACE_FILE)
Traces == J.traces
NT == Len(Traces)

VARIABLES store, dflt, user, stack, tid, l
TraceFiles == [q \in {[i \in 1..Len(J.files[k].p) |-> CanonDef[J.files[k].p[i]]] : k \in DOMAIN J.files} |->
                 J.files[CHOOSE k \in DOMAIN J.files :
                      [i \in 1..Len(J.files[k].p) |-> CanonDef[J.files[k].p[i]]] = q].v]
INSTANCE ConfigStore WITH Canon <- CanonDef, Leaves <- LeavesDef, Files <- TraceFiles

tvars == <<store, dflt, user, stack, tid, l>>
ev == Traces[tid][l]

\* what the implementation showed after the call must be what the model says
Observed ==
  /\ OneEntryPerKey(ev.state)
  /\ store' = TreeOf(ev.state)
  /\ \A i \in DOMAIN ev.gets :
        /\ OneEntryPerKey(ev.gets[i].r)
        /\ TreeOf(ev.gets[i].r) =
             (LET p == CanonPath(ev.gets[i].p) IN
              IF p \in DOMAIN store' THEN Subtree(store', p) ELSE (<<>> :> "MISSING"))

IsEvent(op) == l <= Len(Traces[tid]) /\ ev.op = op /\ l' = l + 1 /\ UNCHANGED tid

TSet     == IsEvent("set") /\ ~ev.raised /\ Set(AssignsOf(ev.as)) /\ Observed
TEnter   == IsEvent("enter") /\ ~ev.raised /\ Enter(AssignsOf(ev.as)) /\ Observed
TExit    == IsEvent("exit") /\ ~ev.raised /\ Exit /\ Observed
TUpd     == IsEvent("update_defaults") /\ ~ev.raised /\ UpdateDefaults(TreeOf(ev.new)) /\ Observed
TRefresh == IsEvent("refresh") /\ ~ev.raised /\ Refresh /\ Observed
TBadDev  == IsEvent("bad_device") /\ ev.raised /\ BadDevice /\ Observed

TInit == Init /\ tid \in 1..NT /\ l = 1
TNext == TSet \/ TEnter \/ TExit \/ TUpd \/ TRefresh \/ TBadDev
TSpec == TInit /\ [][TNext]_tvars

ASSUME TLCSet(1, [t \in 1..NT |-> 0])
Progress == LET cur == TLCGet(1) IN
            IF l > cur[tid] THEN TLCSet(1, [cur EXCEPT ![tid] = l]) ELSE TRUE
AllAccepted == LET p == TLCGet(1) IN
   /\ PrintT(<<"PROGRESS", p>>)
   /\ \A t \in 1..NT : p[t] = Len(Traces[t]) + 1
=============================================================================
