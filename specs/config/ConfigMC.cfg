SPECIFICATION MCSpec
CONSTANTS Record = FALSE
          MaxLen = 5
          MaxStack = 2
          Rich = FALSE
          GH = FALSE
CONSTRAINT Bound
INVARIANT InvTypeOK
PROPERTY SiblingsKept
PROPERTY LastWriterWins
PROPERTY RefreshRestores
PROPERTY DefaultsRespectUser
PROPERTY WithRestores
