SPECIFICATION MCSpec
CONSTANTS Record = TRUE
          MaxLen = 2
          MaxStack = 2
          Rich = FALSE
          GH = TRUE
CONSTRAINT Bound
INVARIANT Emit
