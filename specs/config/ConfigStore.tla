--------------------------- MODULE ConfigStore ---------------------------
(***************************************************************************)
(* Abstract specification of quantem.core.config (property C19).           *)
(*                                                                         *)
(* The store is a nested map.  It is modelled as a *tree*: a function from *)
(* canonical paths (sequences of canonical key names) to either a leaf     *)
(* value or the token "MAP".  '-' and '_' spellings of a key are one       *)
(* canonical key (constant Canon).  Maps are explicit nodes (an empty      *)
(* sub-map is a node with no children).                                    *)
(*                                                                         *)
(* Writers: Set (mapping / dotted / keyword forms are all sequences of     *)
(* path := value assignments, value a leaf or a whole sub-map),            *)
(* UpdateDefaults, Refresh, and the context-manager pair Set-with-record / *)
(* Exit.  Rejected device requests are a stuttering step that must raise.  *)
(*                                                                         *)
(* Where the property is silent the action is nondeterministic             *)
(* (UpdateDefaults on a key the user set to a value equal to the current   *)
(* default may or may not follow the new default).                         *)
(***************************************************************************)
EXTENDS Naturals, Sequences, FiniteSets, TLC

CONSTANTS
  Canon,      \* function: spelled key -> canonical key
  Leaves,     \* set of leaf values (strings)
  Files       \* tree contributed by configuration files on refresh (may be empty)

VARIABLES
  store,      \* current configuration            (tree)
  dflt,       \* merged accumulated defaults       (tree)
  user,       \* leaf paths written by Set since the last Refresh (history variable)
  stack       \* stack of context-manager frames; a frame is a sequence of records

vars == <<store, dflt, user, stack>>

MAP == "MAP"
EmptyTree == (<<>> :> MAP)          \* the root is always a map

---------------------------------------------------------------------------
(* Tree algebra *)

IsPrefix(p, q) == Len(p) <= Len(q) /\ SubSeq(q, 1, Len(p)) = p
Ancestors(p)   == {SubSeq(p, 1, i) : i \in 0..(Len(p) - 1)}
Rel(p, q)      == SubSeq(q, Len(p) + 1, Len(q))         \* q relative to its prefix p

WellFormed(t) ==
  /\ <<>> \in DOMAIN t /\ t[<<>>] = MAP
  /\ \A p \in DOMAIN t : \A a \in Ancestors(p) : a \in DOMAIN t /\ t[a] = MAP

\* the sub-tree of t rooted at p (paths relative to p); p must be in DOMAIN t
Subtree(t, p) ==
  [r \in {Rel(p, q) : q \in {q \in DOMAIN t : IsPrefix(p, q)}} |-> t[p \o r]]

\* can a value be assigned at p?  every existing ancestor must be a map
CanAssign(t, p) == p # <<>> /\ \A a \in Ancestors(p) : a \in DOMAIN t => t[a] = MAP

\* replace whatever is at p by the tree `sub` (relative paths, root <<>>),
\* creating missing ancestors as maps
Graft(t, p, sub) ==
  LET keep == {q \in DOMAIN t : ~IsPrefix(p, q)}
      new  == {p \o r : r \in DOMAIN sub}
  IN  [q \in keep \cup Ancestors(p) \cup new |->
         IF q \in new THEN sub[Rel(p, q)]
         ELSE IF q \in Ancestors(p) THEN MAP ELSE t[q]]

\* remove p and everything below it (ancestors are created as maps if missing,
\* which is what walking down with setdefault does)
Prune(t, p) ==
  LET keep == {q \in DOMAIN t : ~IsPrefix(p, q)}
  IN  [q \in keep \cup Ancestors(p) |-> IF q \in DOMAIN t /\ q \in keep THEN t[q] ELSE MAP]

LeafPaths(t) == {q \in DOMAIN t : t[q] # MAP}

\* new and old agree on what is a map and what is a leaf wherever both speak
Compatible(old, new) ==
  \A q \in DOMAIN new :
     /\ q \in DOMAIN old => ((old[q] = MAP) <=> (new[q] = MAP))
     /\ \A a \in Ancestors(q) : a \in DOMAIN old => old[a] = MAP

\* nested merge, `new` wins on leaves, siblings are kept
Merge(old, new) ==
  [q \in DOMAIN old \cup DOMAIN new |-> IF q \in DOMAIN new THEN new[q] ELSE old[q]]

---------------------------------------------------------------------------
(* Assignments.  An assignment is a record [p |-> canonical path, v |-> tree].   *)

RECURSIVE ApplyAll(_, _)
ApplyAll(t, as) ==
  IF as = <<>> THEN t ELSE ApplyAll(Graft(t, Head(as).p, Head(as).v), Tail(as))

RECURSIVE AllAssignable(_, _)
AllAssignable(t, as) ==
  IF as = <<>> THEN TRUE
  ELSE CanAssign(t, Head(as).p) /\ AllAssignable(Graft(t, Head(as).p, Head(as).v), Tail(as))

\* the undo record of one assignment, computed in the tree *before* it:
\* if some ancestor (or p itself) is missing, the shallowest missing node is
\* recorded as inserted; otherwise the old sub-tree is recorded.
Missing(t, p) == {a \in Ancestors(p) \cup {p} : a \notin DOMAIN t}
Shallowest(S) == CHOOSE a \in S : \A b \in S : Len(a) <= Len(b)
UndoRecord(t, p) ==
  IF Missing(t, p) # {}
  THEN [kind |-> "insert",  p |-> Shallowest(Missing(t, p)), old |-> EmptyTree]
  ELSE [kind |-> "replace", p |-> p, old |-> Subtree(t, p)]

RECURSIVE Records(_, _)
Records(t, as) ==
  IF as = <<>> THEN <<>>
  ELSE <<UndoRecord(t, Head(as).p)>> \o Records(Graft(t, Head(as).p, Head(as).v), Tail(as))

\* undo a frame: records in reverse order
RECURSIVE Undo(_, _)
Undo(t, recs) ==
  IF recs = <<>> THEN t
  ELSE LET r == recs[Len(recs)]
           t1 == IF r.kind = "insert" THEN Prune(t, r.p) ELSE Graft(t, r.p, r.old)
       IN Undo(t1, SubSeq(recs, 1, Len(recs) - 1))

WrittenLeaves(t0, as) ==   \* leaf paths written by the assignments
  UNION {{a.p \o r : r \in LeafPaths(a.v)} : a \in {as[i] : i \in DOMAIN as}}

---------------------------------------------------------------------------
(* Codec: trees cross the JSON boundary as sequences of [p |-> spelled path,      *)
(* v |-> leaf value or "MAP"] pairs; spelled keys are canonicalised here.         *)

CanonPath(sp) == [i \in 1..Len(sp) |-> Canon[sp[i]]]
PairPaths(pairs) == {CanonPath(pairs[i].p) : i \in DOMAIN pairs}
TreeOf(pairs) ==
  [q \in PairPaths(pairs) |->
     pairs[CHOOSE i \in DOMAIN pairs : CanonPath(pairs[i].p) = q].v]
\* both spellings of one key never coexist: canonicalisation is injective on the pairs
OneEntryPerKey(pairs) == Cardinality(PairPaths(pairs)) = Len(pairs)
AssignsOf(as) == [i \in DOMAIN as |-> [p |-> CanonPath(as[i].p), v |-> TreeOf(as[i].v)]]

---------------------------------------------------------------------------
(* Actions *)

Init ==
  /\ store = EmptyTree /\ dflt = EmptyTree /\ user = {} /\ stack = <<>>

\* plain set(...): a sequence of assignments applied left to right
Set(as) ==
  /\ AllAssignable(store, as)
  /\ store' = ApplyAll(store, as)
  /\ user' = {q \in user : q \in DOMAIN ApplyAll(store, as)} \cup WrittenLeaves(store, as)
  /\ UNCHANGED <<dflt, stack>>

\* `with set(...)`: the same, and an undo frame is pushed
Enter(as) ==
  /\ AllAssignable(store, as)
  /\ store' = ApplyAll(store, as)
  /\ user' = {q \in user : q \in DOMAIN ApplyAll(store, as)} \cup WrittenLeaves(store, as)
  /\ stack' = Append(stack, [recs |-> Records(store, as), user |-> user])
  /\ UNCHANGED dflt

\* leaving the with block restores the previous values of the touched keys
Exit ==
  /\ stack # <<>>
  /\ LET f == stack[Len(stack)]
         t1 == Undo(store, f.recs)
         Touched(q) == \E i \in DOMAIN f.recs : IsPrefix(f.recs[i].p, q)
     IN
       /\ store' = t1
       /\ user'  = {q \in LeafPaths(t1) : IF Touched(q) THEN q \in f.user ELSE q \in user}
  /\ stack' = SubSeq(stack, 1, Len(stack) - 1)
  /\ UNCHANGED dflt

\* update_defaults(new): remember the defaults; the configuration follows them
\* except where the user has set something else
\* A leaf that exists already:
\*   never set by the user and still equal to the default in force  -> must follow the new default
\*   set by the user to something else than the default in force    -> must be kept
\*   anything else (set by the user to the very default; or a value that is neither the user's
\*   nor the default in force, e.g. restored by a with-block exit after the defaults moved on)
\*   -> the property is silent: either outcome
EqDefault(q) == q \in DOMAIN dflt /\ dflt[q] = store[q]
MustFollow(new) == {q \in LeafPaths(new) : q \in DOMAIN store /\ q \notin user /\ EqDefault(q)}
MustKeep(new)   == {q \in LeafPaths(new) : q \in DOMAIN store /\ q \in user /\ ~EqDefault(q)}
AmbiguousFor(new) == {q \in LeafPaths(new) : q \in DOMAIN store} \ (MustFollow(new) \cup MustKeep(new))
UpdateDefaults(new) ==
  /\ WellFormed(new) /\ Compatible(dflt, new) /\ Compatible(store, new)
  /\ dflt' = Merge(dflt, new)
  /\ \E follow \in SUBSET AmbiguousFor(new) :
        store' = [q \in DOMAIN store \cup DOMAIN new |->
                    IF q \notin DOMAIN new THEN store[q]
                    ELSE IF q \in MustKeep(new) THEN store[q]
                    ELSE IF q \in AmbiguousFor(new) /\ q \notin follow THEN store[q]
                    ELSE new[q]]
  /\ UNCHANGED <<user, stack>>

\* refresh(): exactly the accumulated defaults, overlaid with the config files
Refresh ==
  /\ Compatible(dflt, Files)
  /\ store' = Merge(dflt, Files)
  /\ user' = LeafPaths(Files)
  /\ UNCHANGED <<dflt, stack>>

\* a request for an unavailable / malformed device must raise and change nothing
BadDevice == UNCHANGED vars

\* reading never changes anything;  Lookup is what get(path) must return
Lookup(p) == IF p \in DOMAIN store THEN Subtree(store, p) ELSE (<<>> :> "MISSING")

---------------------------------------------------------------------------
(* Properties (checked by TLC on the bounded instance in ConfigStoreMC) *)

TypeOK ==
  /\ WellFormed(store) /\ WellFormed(dflt)
  /\ user \subseteq DOMAIN store

\* SiblingsKept: an assignment at p changes nothing outside p's sub-tree
\* (apart from creating missing ancestors)
SiblingsKeptBy(p) ==
  \A q \in DOMAIN store : (~IsPrefix(p, q) /\ q \notin Ancestors(p)) =>
        q \in DOMAIN store' /\ store'[q] = store[q]

\* RefreshIsDefaults, when there are no files
RefreshIsDefaults == (Files = EmptyTree) => (store' = dflt)
=============================================================================
