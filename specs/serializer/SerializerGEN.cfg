SPECIFICATION Spec
CONSTANTS LegacyC = {}
          Universe = "small"
          Emit = TRUE
INVARIANT EmitCase
