SPECIFICATION Spec
CONSTANTS NV = 2
          MaxLen = 5
          StaleCache = FALSE
          Record = FALSE
INVARIANT LoadReturnsLastSaved
PROPERTY WriteOnce
