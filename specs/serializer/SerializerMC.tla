---------------------------- MODULE SerializerMC ----------------------------
(* Bounded instance of Serializer: a universe of object graphs, the state     *)
(* machine  fresh -> saved -> loaded -> resaved -> reloaded, and the          *)
(* invariants of C01 (round trip, fixed point) and C14 (skip lists).          *)
EXTENDS Naturals, Sequences, FiniteSets, TLC, Json

CONSTANTS LegacyC,     \* legacy switches (negative controls)
          Universe,    \* "small" | "full"
          Emit         \* TRUE: print one CASE line per initial state
INSTANCE Serializer WITH Legacy <- LegacyC

---------------------------------------------------------------------------
(* value universe *)
PyInt == Leaf("int", "a", 6)        PyFloat == Leaf("float", "a", 5)
PyBool == Leaf("bool", "a", 2)      PyStr == Mk("str", "a")
PyNone == Mk("none", "")            PyComplex == Mk("complex", "a")
PyPath == Mk("path", "a")           NpInt == Leaf("npint", "a", 4)
NpFloat == Leaf("npfloat", "a", 3)  NpBool == Leaf("npbool", "a", 0)
NpComplex == Mk("npcomplex", "a")
Arr0d == Mk("arr", "0d")    ArrEmpty == Mk("arr", "empty")
Arr1d == Mk("arr", "1d")    Arr2d == Mk("arr", "2d")
TenPlain == Mk("tensor", "plain")   TenGrad == Mk("tensor", "grad")
Module == Mk("module", "a")  Rng == Mk("rng", "a")  Logger == Mk("logger", "a")

Hashable == {PyInt, PyFloat, PyBool, PyStr, PyNone, PyComplex, PyPath, NpInt, NpFloat, NpBool}
ContLeaves == Hashable \cup {NpComplex, Arr0d, ArrEmpty, Arr1d, Arr2d, TenPlain, TenGrad, Module}
AttrLeaves == ContLeaves \cup {Rng, Logger}

List(sq) == V("list", "", 0, sq, NoMap, {})
Tuple(sq) == V("tuple", "", 0, sq, NoMap, {})
SetOf(S) == V("set", "", 0, <<>>, NoMap, S)
Dict(m) == V("dict", "", 0, <<>>, m, {})
Obj(cls, m) == V("obj", cls, 0, <<>>, m, {})

Seqs(S, w) == UNION {[1..k -> S] : k \in 0..w}
Maps(S, keys) == UNION {[K -> S] : K \in SUBSET keys}

\* sets hold hashable leaves with pairwise different numeric value (python would merge 1 and True)
DistinctNum(S) == \A x, y \in S : (x # y /\ IsNumeric(x) /\ IsNumeric(y)) => x.num # y.num
SmallSets(S) == {T \in SUBSET S : Cardinality(T) <= 2 /\ DistinctNum(T)}

Depth1(L) == {List(q) : q \in Seqs(L, 2)} \cup {Tuple(q) : q \in Seqs(L, 2)}
             \cup {Dict(m) : m \in Maps(L, {"k1", "k2"})}
             \cup {SetOf(T) : T \in SmallSets(Hashable \cap L)}

\* representatives of the dispatch classes for the deeper levels
Classes == {PyInt, PyStr, Arr1d, TenPlain, PyPath}
Inner == Classes \cup {List(<<PyInt, NpFloat>>), List(<<PyStr>>), Tuple(<<PyInt, PyStr>>), List(<<>>),
                       Dict([k \in {"k1"} |-> PyInt]), SetOf({PyInt, PyStr}), SetOf({PyInt, PyFloat}),
                       Obj("Inner", [n \in {"x"} |-> Arr0d]), List(<<Arr0d, PyComplex>>)}
Depth2 == {List(q) : q \in Seqs(Inner, 2)} \cup {Tuple(q) : q \in Seqs(Inner, 2)}
          \cup {Dict(m) : m \in Maps(Inner, {"k1", "k2"})}

NestedObjs ==
  {Obj("Inner", m) : m \in Maps(Classes \cup {List(<<PyInt, PyInt>>), SetOf({PyStr}), Arr0d}, {"x", "y"})}
  \cup {Obj("Inner", [n \in {"x"} |-> Obj("Inner", [k \in {"y"} |-> v])]) : v \in {PyInt, Arr0d, SetOf({PyInt})}}

\* long mixed sequences (index keys "0".."11": order must survive), not all-numeric
LongSeq == [i \in 1..12 |-> IF i = 3 THEN PyStr ELSE IF i = 7 THEN PyNone ELSE Leaf("int", "a", 2 * i)]
LongOnes == {List(LongSeq), Tuple(LongSeq), Dict([k \in {"k1"} |-> Tuple(LongSeq)]),
             SetOf({LongSeq[i] : i \in 1..12}), List(<<List(LongSeq), PyStr>>),
             Obj("Inner", [n \in {"x"} |-> List(LongSeq)])}

Pool == IF Universe = "small"
        THEN AttrLeaves \cup Depth1(Classes \cup {PyFloat, PyBool, NpInt, PyComplex, Arr0d}) \cup NestedObjs \cup LongOnes
        ELSE AttrLeaves \cup Depth1(ContLeaves) \cup Depth2 \cup NestedObjs \cup LongOnes
\* (set elements that are stored as sub-groups - tuples - next to elements stored as attributes)
SetsOfTuples == {SetOf({Tuple(<<PyInt, PyStr>>)}), SetOf({PyStr, Tuple(<<PyInt, PyInt>>), Tuple(<<PyStr, PyInt>>)})}
Pool2 == SetsOfTuples \cup
         {PyInt, PyStr, Arr2d, TenGrad, SetOf({PyInt, PyStr}), List(<<PyInt, PyFloat>>), Rng,
          Obj("Inner", [n \in {"x"} |-> PyInt]), Dict([k \in {"k1"} |-> Arr0d]), NpInt, Arr0d, PyPath}

Roots == {Obj("Root", [n \in {"a"} |-> v]) : v \in Pool \cup SetsOfTuples \cup {List(<<SetOf({Tuple(<<PyInt, PyStr>>), PyStr}), PyInt>>)}}
         \cup {Obj("Root", [n \in {"a", "b"} |-> IF n = "a" THEN v ELSE u]) : v \in Pool2, u \in Pool2}
         \cup {Obj("Root", NoMap)}

\* graphs for the skip-list properties: names reused at several depths
\* (skipping is by ATTRIBUTE name: dictionary keys that happen to equal a skipped name are data and stay)
KeyedLikeNames == Dict([k \in {"a", "c"} |-> IF k = "a" THEN PyInt ELSE PyStr])
\* (NumPy scalars and Paths are STORED as Python builtins but are not instances of them: skipping `int`, `bool`
\* or `str` by type - at save or at load - must leave them alone)
SkipLeaf == {PyInt, PyStr, Arr1d, TenPlain, PyBool, List(<<PyInt, PyStr>>), KeyedLikeNames,
             List(<<Dict([k \in {"b"} |-> PyInt]), PyStr>>), NpInt, NpBool, PyPath}
Lvl3 == {Obj("Inner", m) : m \in Maps({PyInt, Arr1d}, {"a", "c"})}
\* (a nested object may carry attributes that make it LOOK like an array - dtype, shape - and is still an object
\* whose attributes the skip lists reach)
Lvl2 == {Obj("Inner", m) : m \in [{"a", "b"} -> {PyStr}] \cup {[n \in {"a", "c"} |-> IF n = "a" THEN PyInt ELSE o] : o \in Lvl3}
                                 \cup {[n \in {"a", "dtype", "shape"} |-> IF n = "a" THEN PyInt ELSE IF n = "dtype" THEN PyStr ELSE Tuple(<<PyInt, PyInt>>)]}}
SkipRoots == {Obj("Root", [n \in {"a", "b", "c"} |-> IF n = "a" THEN x ELSE IF n = "b" THEN y ELSE o])
                 : x \in SkipLeaf, y \in {PyStr, TenPlain, Arr1d, Dict([k \in {"b", "zz"} |-> PyInt])}, o \in Lvl2}
SkipNames == SUBSET {"a", "b", "c", "zz"}
SkipTypes == {{}, {"int"}, {"str"}, {"ndarray"}, {"Tensor"}, {"Obj"}, {"list"}, {"int", "Tensor"}, {"bool"}}

---------------------------------------------------------------------------
VARIABLES o, skN, skT, pc, disk, mem, mem2
vars == <<o, skN, skT, pc, disk, mem, mem2>>

Nothing == Mk("nothing", "")
Init ==
  /\ \/ (o \in Roots /\ skN = {} /\ skT = {})
     \/ (o \in SkipRoots /\ skN \in SkipNames /\ skT \in SkipTypes)
  /\ pc = "fresh" /\ disk = EmptyGrp /\ mem = Nothing /\ mem2 = Nothing

DoSave   == pc = "fresh" /\ disk' = Save(o, skN, skT) /\ pc' = "saved" /\ UNCHANGED <<o, skN, skT, mem, mem2>>
DoLoad   == pc = "saved" /\ mem' = Load(disk, {}, {}) /\ pc' = "loaded" /\ UNCHANGED <<o, skN, skT, disk, mem2>>
DoResave == pc = "loaded" /\ ~Raises(mem) /\ disk' = Save(mem, {}, {}) /\ pc' = "resaved"
            /\ UNCHANGED <<o, skN, skT, mem, mem2>>
DoReload == pc = "resaved" /\ mem2' = Load(disk, {}, {}) /\ pc' = "reloaded" /\ UNCHANGED <<o, skN, skT, disk, mem>>
Next == DoSave \/ DoLoad \/ DoResave \/ DoReload
Spec == Init /\ [][Next]_vars

---------------------------------------------------------------------------
(* C01 *)
RoundTrip  == (pc = "loaded" /\ skN = {} /\ skT = {}) => mem = Norm(o)
FixedPoint == pc = "reloaded" => mem2 = mem
NeverRaises == pc \in {"loaded", "resaved"} => ~Raises(mem)

(* C14 *)
RECURSIVE Strip(_, _, _)
Strip(v, S, T) ==
  IF v.k # "obj" THEN v
  ELSE [v EXCEPT !.map = [n \in {m \in DOMAIN v.map : m \notin S /\ TypeNames(v.map[m]) \cap T = {}}
                            |-> Strip(v.map[n], S, T)]]
RECURSIVE NamesAbsent(_, _)
NamesAbsent(v, S) ==
  v.k = "obj" => (DOMAIN v.map \cap S = {} /\ \A n \in DOMAIN v.map : NamesAbsent(v.map[n], S))

SkippedAbsent   == pc = "loaded" => NamesAbsent(mem, skN)
\* (types are judged on the ORIGINAL values - an np.int64 is not an int although it is stored and loaded as one -
\* so the graph is stripped first and normalised afterwards)
OthersUntouched == pc = "loaded" => mem = Norm(Strip(o, skN, skT))
Persisted       == pc = "loaded" => Load(disk, skN, skT) = mem
SaveEqLoad      == (pc = "loaded" /\ skT = {}) => Load(Save(o, {}, {}), skN, {}) = mem
LoadSkipBoth    == pc = "loaded" => \A S2 \in {{"a"}, {"c"}, {"b", "zz"}} :
                       Load(disk, S2, {}) = Strip(mem, S2, {})

(* export for replay *)
EmitCase ==
  (Emit /\ pc = "loaded") =>
     PrintT(<<"CASE", ToJson([o |-> o, skN |-> skN, skT |-> skT, expect |-> mem])>>)
=============================================================================
