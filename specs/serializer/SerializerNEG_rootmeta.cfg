SPECIFICATION Spec
CONSTANTS LegacyC = {"rootmeta"}
          Universe = "small"
          Emit = FALSE
INVARIANT RoundTrip
INVARIANT FixedPoint
INVARIANT NeverRaises
INVARIANT SkippedAbsent
INVARIANT OthersUntouched
INVARIANT Persisted
INVARIANT SaveEqLoad
INVARIANT LoadSkipBoth
