------------------------- MODULE SerializerHistory -------------------------
(***************************************************************************)
(* Saves and loads of several objects on ONE path, as a history            *)
(* (property C01: "for every store, both write modes, str or Path          *)
(* targets": load returns what the last successful save wrote).            *)
(*                                                                         *)
(* The design has no state besides the file system: Save(v, spelling,      *)
(* mode) writes v unless the target exists and mode = "w" (FileExists);    *)
(* Load(spelling) returns the stored value whatever spelling - str or      *)
(* pathlib.Path - either call used.  CONSTANT StaleCache = TRUE is the     *)
(* negative control: loads are answered from a cache keyed by the          *)
(* spelling which a save invalidates for the str spelling only.            *)
(***************************************************************************)
EXTENDS Integers, Sequences, TLC, Json

CONSTANTS NV, MaxLen, StaleCache, Record
Spell == {"str", "Path"}

VARIABLES disk, cache, hist, last
vars == <<disk, cache, hist, last>>

Init == disk = 0 /\ cache = [s \in Spell |-> 0] /\ hist = <<>> /\ last = [op |-> "init", ok |-> TRUE, ret |-> 0]
Log(e) == hist' = IF Record THEN Append(hist, e) ELSE hist

Save(v, sp, mode) ==
  /\ IF disk # 0 /\ mode = "w"
     THEN /\ UNCHANGED <<disk, cache>>
          /\ last' = [op |-> "save", ok |-> FALSE, ret |-> 0]
          /\ Log([op |-> "save", v |-> v, sp |-> sp, mode |-> mode, ok |-> FALSE, ret |-> 0])
     ELSE /\ disk' = v
          /\ cache' = IF StaleCache THEN [cache EXCEPT !["str"] = 0] ELSE cache
          /\ last' = [op |-> "save", ok |-> TRUE, ret |-> 0]
          /\ Log([op |-> "save", v |-> v, sp |-> sp, mode |-> mode, ok |-> TRUE, ret |-> 0])
Load(sp) ==
  /\ IF disk = 0
     THEN /\ UNCHANGED cache /\ last' = [op |-> "load", ok |-> FALSE, ret |-> 0]
          /\ Log([op |-> "load", v |-> 0, sp |-> sp, mode |-> "", ok |-> FALSE, ret |-> 0])
     ELSE LET r == IF StaleCache /\ cache[sp] # 0 THEN cache[sp] ELSE disk IN
          /\ cache' = IF StaleCache THEN [cache EXCEPT ![sp] = r] ELSE cache
          /\ last' = [op |-> "load", ok |-> TRUE, ret |-> r]
          /\ Log([op |-> "load", v |-> 0, sp |-> sp, mode |-> "", ok |-> TRUE, ret |-> r])
  /\ UNCHANGED disk
Next == /\ TLCGet("level") <= MaxLen
        /\ \/ \E v \in 1..NV, sp \in Spell, mode \in {"w", "o"} : Save(v, sp, mode)
           \/ \E sp \in Spell : Load(sp)
Spec == Init /\ [][Next]_vars

LoadReturnsLastSaved == (last.op = "load" /\ last.ok) => last.ret = disk
WriteOnce == [][(last'.op = "save" /\ ~last'.ok) => disk' = disk]_vars
Emit == (Record /\ Len(hist) = MaxLen) => PrintT(<<"CASE", ToJson(hist)>>)
=============================================================================
