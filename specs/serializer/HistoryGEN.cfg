SPECIFICATION Spec
CONSTANTS NV = 2
          MaxLen = 4
          StaleCache = FALSE
          Record = TRUE
INVARIANT LoadReturnsLastSaved
INVARIANT Emit
