----------------------------- MODULE Serializer -----------------------------
(***************************************************************************)
(* Abstract model of quantem's AutoSerialize (properties C01 and C14).     *)
(*                                                                         *)
(* VALUES are uniform records [k, s, num, seq, map, set]:                  *)
(*   k    kind: "int" "float" "bool" "str" "none" "complex" "path"         *)
(*        "npint" "npfloat" "npbool" "npcomplex" "arr" "tensor" "module"   *)
(*        "rng" "logger" "list" "tuple" "set" "dict" "obj"  (and "num",    *)
(*        the normal form of a number compared by numeric value)           *)
(*   s    payload tag (opaque to the model; the harness instantiates it)   *)
(*   num  numeric value times two (numbers only; lets 2.5 be an integer)   *)
(*   seq  items of list/tuple;  map: dict entries / object attributes      *)
(*   set  elements of a set                                                *)
(*                                                                         *)
(* The STORE is a tree of groups, each with four namespaces, because the   *)
(* defects of this component are namespace and marker interactions:        *)
(*   attrs (JSON scalars and marker attributes), paths (names flagged      *)
(*   "<name>.is_path"), arrays (chunked data), groups (sub-groups).        *)
(* Byte encodings (zarr chunks, torch.save, dill) are abstracted to "the   *)
(* payload tag survives iff it is written and read through matching        *)
(* branches".                                                              *)
(*                                                                         *)
(* Save and Load are transcriptions of the dispatch chains of              *)
(* _serialize_value/_serialize_container and _recursive_load/              *)
(* _deserialize_container.  CONSTANT Legacy selects the pinned-tree        *)
(* behaviour of individual defects (negative controls).                    *)
(***************************************************************************)
EXTENDS Naturals, Sequences, FiniteSets, TLC

CONSTANT Legacy     \* subset of {"set", "zerod", "rootmeta", "dillcont", "npcomplex"}

NoMap == [x \in {} |-> 0]
V(k, s, num, seq, map, set) == [k |-> k, s |-> s, num |-> num, seq |-> seq, map |-> map, set |-> set]
Leaf(k, s, num) == V(k, s, num, <<>>, NoMap, {})
Mk(k, s) == Leaf(k, s, 0)

NumericKinds == {"int", "float", "bool", "npint", "npfloat", "npbool"}
JsonKinds == {"int", "float", "bool", "str", "none"}
IsNumeric(v) == v.k \in NumericKinds
Num(v) == Leaf("num", "", v.num)

---------------------------------------------------------------------------
(* What a faithful round trip is allowed to change (the quantifier of C01):  *)
(*   NumPy scalars come back as the Python number of the same value,         *)
(*   all-numeric list/tuple items are compared by numeric value,             *)
(*   generators/loggers only keep their kind.                                *)
RECURSIVE Norm(_)
NormScalar(v) ==
  CASE v.k = "npint"   -> Leaf("int", "", v.num)
    [] v.k = "npfloat" -> Leaf("float", "", v.num)
    [] v.k = "npbool"  -> Leaf("bool", "", v.num)
    [] v.k = "rng"     -> Mk("rng", "")
    [] v.k = "logger"  -> Mk("logger", "")
    [] OTHER -> v
AllNumeric(sq) == Len(sq) > 0 /\ \A i \in DOMAIN sq : IsNumeric(sq[i])
Norm(v) ==
  CASE v.k \in {"list", "tuple"} ->
         IF AllNumeric(v.seq) THEN [v EXCEPT !.seq = [i \in DOMAIN v.seq |-> Num(v.seq[i])]]
         ELSE [v EXCEPT !.seq = [i \in DOMAIN v.seq |-> Norm(v.seq[i])]]
    [] v.k = "set"  -> IF v.set # {} /\ \A x \in v.set : IsNumeric(x)
                       THEN [v EXCEPT !.set = {Num(x) : x \in v.set}]
                       ELSE [v EXCEPT !.set = {Norm(x) : x \in v.set}]
    [] v.k \in {"dict", "obj"} -> [v EXCEPT !.map = [n \in DOMAIN v.map |-> Norm(v.map[n])]]
    [] OTHER -> NormScalar(v)

---------------------------------------------------------------------------
(* Store *)
Grp(a, p, ar, g) == [attrs |-> a, paths |-> p, arrays |-> ar, groups |-> g]
EmptyGrp == Grp(NoMap, {}, NoMap, NoMap)
Put(f, n, x) == [m \in DOMAIN f \cup {n} |-> IF m = n THEN x ELSE f[m]]
Marker(s) == Mk("marker", s)

\* which python type an attribute value is an instance of (save-time type skipping)
TypeNames(v) ==
  CASE v.k = "bool" -> {"bool", "int"}          \* bool is a subclass of int
    [] v.k \in {"int", "float", "str", "complex", "list", "tuple", "set", "dict"} -> {v.k}
    [] v.k = "arr" -> {"ndarray"}
    [] v.k = "tensor" -> {"Tensor"}
    [] v.k = "obj" -> {"Obj"}
    [] OTHER -> {}

---------------------------------------------------------------------------
(* Save *)
RECURSIVE SaveValue(_, _, _, _, _), SaveObj(_, _, _, _), SaveItems(_, _, _, _, _)

\* names in a fixed order (the harness builds python objects in the same order)
RECURSIVE Ordered(_)
Ordered(S) == IF S = {} THEN <<>> ELSE LET m == CHOOSE x \in S : TRUE IN <<m>> \o Ordered(S \ {m})

\* serialize value v under `name` into group g (transcribes _serialize_value)
SaveValue(g, name, v, skN, skT) ==
  CASE v.k = "tensor" ->
         [g EXCEPT !.groups = Put(@, name, Grp(Put(NoMap, "_torch_tensor", Marker(v.s)), {}, NoMap, NoMap))]
    [] v.k = "logger" ->
         [g EXCEPT !.groups = Put(@, name, Grp(Put(NoMap, "_python_logger", Marker("")), {}, NoMap, NoMap))]
    [] v.k = "module" ->
         [g EXCEPT !.groups = Put(@, name, Grp(Put(NoMap, "_torch_whole_module", Marker(v.s)), {}, NoMap, NoMap))]
    [] v.k = "arr" -> [g EXCEPT !.arrays = Put(@, name, v)]
    [] v.k \in JsonKinds -> [g EXCEPT !.attrs = Put(@, name, v)]
    [] v.k \in {"npint", "npfloat", "npbool"} -> [g EXCEPT !.attrs = Put(@, name, NormScalar(v))]
    [] v.k = "npcomplex" ->
         IF "npcomplex" \in Legacy THEN [g EXCEPT !.attrs = Put(@, name, Mk("RAISE", "not JSON serializable"))]
         ELSE [g EXCEPT !.arrays = Put(@, name, V("dill", v.s, 0, <<v>>, NoMap, {}))]
    [] v.k = "path" -> [g EXCEPT !.attrs = Put(@, name, Mk("str", v.s)), !.paths = @ \cup {name}]
    [] v.k = "obj" -> [g EXCEPT !.groups = Put(@, name, SaveObj(EmptyGrp, v, skN, skT))]
    [] v.k \in {"list", "tuple"} ->
         [g EXCEPT !.groups = Put(@, name, SaveItems(Grp(Put(NoMap, "_container_type", Marker(v.k)), {}, NoMap, NoMap), v.seq, v.k, skN, skT))]
    [] v.k = "dict" ->
         [g EXCEPT !.groups = Put(@, name,
             LET base == Grp(Put(NoMap, "_container_type", Marker("dict")), {}, NoMap, NoMap)
                 names == DOMAIN v.map
                 RECURSIVE Fold(_, _)
                 Fold(gg, S) == IF S = {} THEN gg
                                ELSE LET n == CHOOSE x \in S : TRUE IN Fold(SaveValue(gg, n, v.map[n], skN, skT), S \ {n})
             IN Fold(base, names))]
    [] v.k = "set" ->
         \* the set is written as a list of its elements; the marker says "set"
         \* (pinned tree: the list writer overwrites the marker with "list")
         LET elems == Ordered(v.set)
             ctype == IF "set" \in Legacy THEN "list" ELSE "set"
         IN [g EXCEPT !.groups = Put(@, name, SaveItems(Grp(Put(NoMap, "_container_type", Marker(ctype)), {}, NoMap, NoMap), elems, "set", skN, skT))]
    [] v.k = "rng" ->
         [g EXCEPT !.groups = Put(@, name, Grp(Put(NoMap, "_numpy_rng", Marker("")), {}, NoMap, NoMap))]
    [] OTHER ->   \* complex and anything else: dill fallback, bytes stored as an array
         [g EXCEPT !.arrays = Put(@, name, V("dill", v.s, 0, <<v>>, NoMap, {}))]

\* list/tuple/set items (transcribes _serialize_container): all-numeric fast path
SaveItems(g, sq, ctype, skN, skT) ==
  IF AllNumeric(sq)
  THEN [g EXCEPT !.attrs = Put(@, "_sequence_encoding", Marker("ndarray")),
                 !.arrays = Put(@, "values", V("numarr", "", 0, [i \in DOMAIN sq |-> Num(sq[i])], NoMap, {}))]
  ELSE LET RECURSIVE Fold(_, _)
           Fold(gg, i) == IF i > Len(sq) THEN gg
                          ELSE Fold(SaveValue(gg, ToString(i - 1), sq[i], skN, skT), i + 1)
       IN Fold(g, 1)

\* object: class marker, then every attribute not skipped by name or type
SaveObj(g, o, skN, skT) ==
  LET base == [g EXCEPT !.attrs = Put(@, "_autoserialize", Marker(o.s))]
      keep == {n \in DOMAIN o.map : n \notin skN /\ TypeNames(o.map[n]) \cap skT = {}}
      RECURSIVE Fold(_, _)
      Fold(gg, S) == IF S = {} THEN gg
                     ELSE LET n == CHOOSE x \in S : TRUE IN Fold(SaveValue(gg, n, o.map[n], skN, skT), S \ {n})
  IN Fold(base, keep)

\* root: the object plus the persisted skip lists
Save(o, skN, skT) ==
  LET g == SaveObj(EmptyGrp, o, skN, skT) IN
  [g EXCEPT !.attrs = Put(Put(@, "_autoserialize_skip_names", V("skipnames", "", 0, <<>>, NoMap, skN)),
                            "_autoserialize_skip_types", V("skiptypes", "", 0, <<>>, NoMap, skT))]

---------------------------------------------------------------------------
(* Load *)
Reserved == {"_autoserialize", "_container_type", "_sequence_encoding", "_torch_tensor",
             "_python_logger", "_torch_whole_module", "_numpy_rng",
             "_autoserialize_skip_names", "_autoserialize_skip_types"}
RECURSIVE LoadObj(_, _, _, _), LoadContainer(_), LoadGroup(_, _, _, _)

ReadArray(a) ==
  CASE a.k = "dill" -> a.seq[1]
    [] a.k = "arr" /\ a.s = "0d" /\ "zerod" \in Legacy -> Mk("arr", "0d-uninitialised")
    [] OTHER -> a
\* arrays inside containers: pinned tree does not decode dill payloads
ReadArrayInContainer(a) ==
  IF a.k = "dill" /\ "dillcont" \in Legacy THEN Mk("arr", "raw-gzip-bytes") ELSE ReadArray(a)

AttrValue(g, n) == IF n \in g.paths THEN Mk("path", g.attrs[n].s) ELSE g.attrs[n]

\* a sub-group inside an object (transcribes the marker dispatch of _recursive_load)
LoadGroup(sg, skN, skT, inContainer) ==
  CASE "_torch_tensor" \in DOMAIN sg.attrs -> Mk("tensor", sg.attrs["_torch_tensor"].s)
    [] "_python_logger" \in DOMAIN sg.attrs -> Mk("logger", "")
    [] "_torch_whole_module" \in DOMAIN sg.attrs -> Mk("module", sg.attrs["_torch_whole_module"].s)
    [] "_autoserialize" \in DOMAIN sg.attrs ->
         IF inContainer THEN LoadObj(sg, {}, {}, FALSE) ELSE LoadObj(sg, skN, skT, FALSE)
    [] "_container_type" \in DOMAIN sg.attrs -> LoadContainer(sg)
    [] "_numpy_rng" \in DOMAIN sg.attrs -> IF inContainer THEN Mk("RAISE", "unknown group") ELSE Mk("rng", "")
    [] OTHER -> Mk("RAISE", "unknown group")

LoadObj(g, skN, skT, isRoot) ==
  LET meta == {"_autoserialize"} \cup
              (IF "rootmeta" \in Legacy THEN {} ELSE {"_autoserialize_skip_names", "_autoserialize_skip_types"})
      an == {n \in DOMAIN g.attrs : n \notin meta /\ n \notin skN}
      rn == {n \in DOMAIN g.arrays : n \notin skN /\ TypeNames(ReadArray(g.arrays[n])) \cap skT = {}}
      gn == {n \in DOMAIN g.groups : n \notin skN
                 /\ TypeNames(LoadGroup(g.groups[n], skN, skT, FALSE)) \cap skT = {}}
  IN V("obj", g.attrs["_autoserialize"].s, 0, <<>>,
       [n \in an \cup rn \cup gn |->
           IF n \in gn THEN LoadGroup(g.groups[n], skN, skT, FALSE)
           ELSE IF n \in rn THEN ReadArray(g.arrays[n])
           ELSE AttrValue(g, n)], {})

LoadContainer(g) ==
  LET ctype == g.attrs["_container_type"].s
      Item(key) == IF key \in DOMAIN g.attrs THEN AttrValue(g, key)
                   ELSE IF key \in DOMAIN g.arrays THEN ReadArrayInContainer(g.arrays[key])
                   ELSE IF key \in DOMAIN g.groups THEN LoadGroup(g.groups[key], {}, {}, TRUE)
                   ELSE Mk("RAISE", "missing key")
      idx == {i \in 0..15 : ToString(i) \in DOMAIN g.attrs \cup DOMAIN g.arrays \cup DOMAIN g.groups}
      len == IF idx = {} THEN 0 ELSE (CHOOSE m \in idx : \A j \in idx : j <= m) + 1
      items == [i \in 1..len |-> Item(ToString(i - 1))]
      fast == "_sequence_encoding" \in DOMAIN g.attrs /\ "values" \in DOMAIN g.arrays
  IN CASE ctype \in {"list", "tuple"} ->
            V(ctype, "", 0, IF fast THEN g.arrays["values"].seq ELSE items, NoMap, {})
       [] ctype = "set" ->
            V("set", "", 0, <<>>, NoMap,
              IF fast THEN {g.arrays["values"].seq[i] : i \in DOMAIN g.arrays["values"].seq}
              ELSE {items[i] : i \in DOMAIN items})
       [] ctype = "dict" ->
            LET an == {n \in DOMAIN g.attrs : n # "_container_type"}
            IN V("dict", "", 0, <<>>,
                 [n \in an \cup DOMAIN g.arrays \cup DOMAIN g.groups |->
                    IF n \in DOMAIN g.groups THEN LoadGroup(g.groups[n], {}, {}, TRUE)
                    ELSE IF n \in DOMAIN g.arrays THEN ReadArrayInContainer(g.arrays[n])
                    ELSE AttrValue(g, n)], {})
       [] OTHER -> Mk("RAISE", "unknown container type")

\* load(path, skip): user skip lists are merged with the ones stored in the file
Load(g, uN, uT) ==
  LET fN == IF "_autoserialize_skip_names" \in DOMAIN g.attrs THEN g.attrs["_autoserialize_skip_names"].set ELSE {}
      fT == IF "_autoserialize_skip_types" \in DOMAIN g.attrs THEN g.attrs["_autoserialize_skip_types"].set ELSE {}
  IN IF "_autoserialize" \notin DOMAIN g.attrs THEN Mk("RAISE", "missing _autoserialize")
     ELSE LoadObj(g, uN \cup fN, uT \cup fT, TRUE)

RECURSIVE Raises(_)
Raises(v) == \/ v.k = "RAISE"
             \/ \E i \in DOMAIN v.seq : Raises(v.seq[i])
             \/ \E n \in DOMAIN v.map : Raises(v.map[n])
             \/ \E x \in v.set : Raises(x)
=============================================================================
