SPECIFICATION Spec
CONSTANTS NV = 2
          MaxLen = 5
          StaleCache = TRUE
          Record = FALSE
INVARIANT LoadReturnsLastSaved
PROPERTY WriteOnce
