-------------------------- MODULE TiltSeriesState --------------------------
(***************************************************************************)
(* The per-projection parameter state of a tomography dataset (beyond the  *)
(* listed properties; grows the specification towards the rest of the      *)
(* system).                                                                *)
(*                                                                         *)
(* A TomographyDataset holds a tilt series of N projections and four       *)
(* per-projection parameter arrays - tilt angles, two in-plane angles,     *)
(* shifts - each in a CURRENT and an INITIAL copy.  The current arrays are *)
(* what an alignment optimises (also in place); reset() puts the initial   *)
(* ones back.  Setters of current arrays refuse a length other than N and  *)
(* leave everything as it was; setters of initial arrays and of the tilt   *)
(* series itself do not validate.                                          *)
(*                                                                         *)
(* An array is [len, val, id]: its length, a value token and the identity  *)
(* of the tensor object (to speak about aliasing: an in-place update of    *)
(* one object changes every array that IS that object).                    *)
(***************************************************************************)
EXTENDS Integers, Sequences, FiniteSets, TLC, Json

CONSTANTS N0, MaxLen, Record,
          Bug      \* "none" | "resetalias" (negative control: reset() installs the initial tensors themselves)

Fields == {"tilt", "z1", "z3", "shifts"}
Lens == {N0, N0 + 1}
Vals == {1, 2}

VARIABLES n, cur, ini, nextid, last, hist
vars == <<n, cur, ini, nextid, last, hist>>

Arr(l, v, i) == [len |-> l, val |-> v, id |-> i]
Init == /\ n = N0
        /\ cur = [f \in Fields |-> Arr(N0, 0, IF f = "tilt" THEN 1 ELSE IF f = "z1" THEN 2 ELSE IF f = "z3" THEN 3 ELSE 4)]
        /\ ini = [f \in Fields |-> Arr(N0, 0, IF f = "tilt" THEN 5 ELSE IF f = "z1" THEN 6 ELSE IF f = "z3" THEN 7 ELSE 8)]   \* clones
        /\ nextid = 9 /\ last = [op |-> "init", ok |-> TRUE] /\ hist = <<>>

Log(e) == hist' = IF Record THEN Append(hist, e) ELSE hist
Ev(op, f, l, v, ok) == [op |-> op, f |-> f, len |-> l, val |-> v, ok |-> ok]
Done(e) == last' = [op |-> e.op, ok |-> e.ok] /\ Log([e EXCEPT !.op = e.op] @@ [post |-> [n |-> n', cur |-> cur', ini |-> ini']])

\* ds.<field> = new array of length l
Set(f, l, v) ==
  IF l = n
  THEN /\ cur' = [cur EXCEPT ![f] = Arr(l, v, nextid)] /\ nextid' = nextid + 1 /\ UNCHANGED <<n, ini>>
       /\ Done(Ev("set", f, l, v, TRUE))
  ELSE /\ UNCHANGED <<n, cur, ini, nextid>> /\ Done(Ev("set", f, l, v, FALSE))
\* ds.initial_<field> = array (no validation)
SetInitial(f, l, v) ==
  /\ ini' = [ini EXCEPT ![f] = Arr(l, v, nextid)] /\ nextid' = nextid + 1 /\ UNCHANGED <<n, cur>>
  /\ Done(Ev("set_initial", f, l, v, TRUE))
\* ds.tilt_series = stack of m projections
SetSeries(m) == /\ n' = m /\ UNCHANGED <<cur, ini, nextid>> /\ Done(Ev("set_series", "", m, 0, TRUE))
\* an in-place update of the current array (what an optimiser step does): every array that is the same object changes
InPlace(f, v) ==
  LET obj == cur[f].id IN
  /\ cur' = [g \in Fields |-> IF cur[g].id = obj THEN [cur[g] EXCEPT !.val = v] ELSE cur[g]]
  /\ ini' = [g \in Fields |-> IF ini[g].id = obj THEN [ini[g] EXCEPT !.val = v] ELSE ini[g]]
  /\ UNCHANGED <<n, nextid>> /\ Done(Ev("inplace", f, cur[f].len, v, TRUE))
\* reset(): the current arrays become fresh copies of the initial ones
Reset ==
  /\ cur' = [f \in Fields |-> IF Bug = "resetalias" THEN ini[f] ELSE Arr(ini[f].len, ini[f].val, nextid + (CHOOSE k \in 0..3 : <<"tilt", "z1", "z3", "shifts">>[k + 1] = f))]
  /\ nextid' = nextid + 4 /\ UNCHANGED <<n, ini>> /\ Done(Ev("reset", "", 0, 0, TRUE))
\* to(device): nothing observable changes
ToDevice == /\ UNCHANGED <<n, cur, ini, nextid>> /\ Done(Ev("to", "", 0, 0, TRUE))

Next == /\ TLCGet("level") <= MaxLen
        /\ \/ \E f \in Fields, l \in Lens, v \in Vals : Set(f, l, v) \/ SetInitial(f, l, v)
           \/ \E m \in Lens : SetSeries(m)
           \/ \E f \in Fields, v \in {7, 8} : InPlace(f, v)
           \/ Reset \/ ToDevice
Spec == Init /\ [][Next]_vars

---------------------------------------------------------------------------
\* a refused request leaves everything as it was
RejectedLeavesState == [][(~last'.ok) => (n' = n /\ cur' = cur /\ ini' = ini)]_vars
\* a current array is never the same object as an initial one: optimising in place cannot corrupt what reset() restores
NoAliasing == \A f, g \in Fields : cur[f].id # ini[g].id
\* reset restores lengths and values of the initial arrays
ResetRestores == last.op = "reset" => \A f \in Fields : cur[f].len = ini[f].len /\ cur[f].val = ini[f].val
\* only setters of initial arrays change initial values
InitialStable == [][(last'.op \notin {"set_initial"}) => \A f \in Fields : ini'[f].val = ini[f].val /\ ini'[f].len = ini[f].len]_vars

Emit == (Record /\ Len(hist) = MaxLen) => PrintT(<<"CASE", ToJson(hist)>>)
=============================================================================
