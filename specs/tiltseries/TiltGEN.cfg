SPECIFICATION Spec
CONSTANTS N0 = 2
          MaxLen = 3
          Record = TRUE
          Bug = "none"
INVARIANT NoAliasing
INVARIANT ResetRestores
INVARIANT Emit
