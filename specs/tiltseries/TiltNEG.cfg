SPECIFICATION Spec
CONSTANTS N0 = 2
          MaxLen = 5
          Record = FALSE
          Bug = "resetalias"
INVARIANT NoAliasing
INVARIANT ResetRestores
PROPERTY RejectedLeavesState
PROPERTY InitialStable
