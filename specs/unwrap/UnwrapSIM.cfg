SPECIFICATION SimSpec
CONSTANTS H = 3
          W = 4
          K = 8
          A = 15
          WrapAround = FALSE
          SignBug = FALSE
          FullMask = FALSE
INVARIANT EmitBuilt
INVARIANT TreeConsistent
INVARIANT Final
