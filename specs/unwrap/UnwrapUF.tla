----------------------------- MODULE UnwrapUF -----------------------------
(***************************************************************************)
(* Reliability-sorted (Herraez) phase unwrapping as a union-find with      *)
(* offsets (property C17).                                                 *)
(*                                                                         *)
(* Phases are integers in units of 2*pi/K (K even).  f is the true field,  *)
(* w its wrapped version in [-K/2, K/2).  The Itoh condition says that     *)
(* every edge joining two masked pixels (including the wrap-around edges   *)
(* when they are used) has |f_i - f_j| < K/2.                              *)
(*                                                                         *)
(* The algorithm processes edges in *some* order (the code sorts them by   *)
(* reliability; ties are broken arbitrarily).  Here Union(e) is enabled    *)
(* for ANY remaining edge, so TLC explores every merge order - a superset  *)
(* of what any reliability order or tie-breaking can produce.              *)
(*                                                                         *)
(* Two ways to start: Init (all Itoh fields at once; exhaustive checking)  *)
(* and BInit/Build (the field is grown pixel by pixel, each value chosen   *)
(* among those compatible with the already chosen neighbours; used with    *)
(* -simulate on grids too large to enumerate).                             *)
(***************************************************************************)
EXTENDS Integers, Sequences, FiniteSets, TLC, Json

CONSTANTS H, W,        \* grid shape
          K,           \* levels per 2*pi (even)
          A,           \* true field values range over 0..A
          WrapAround,  \* periodic grid: wrap-around edges are used
          SignBug,     \* negative control: wrong sign of the stored offset
          FullMask     \* constructive start only: TRUE = every pixel is in the mask

N == H * W
Pix == 0..(N - 1)
Row(i) == i \div W
Col(i) == i % W
At(r, c) == (r * W) + c

\* edges exactly as the implementation builds them (ordered pairs)
Edges ==
  IF WrapAround
  THEN {<<i, At(Row(i), (Col(i) + 1) % W)>> : i \in Pix} \cup
       {<<i, At((Row(i) + 1) % H, Col(i))>> : i \in Pix}
  ELSE {<<i, i + 1>> : i \in {j \in Pix : Col(j) < W - 1}} \cup
       {<<i, i + W>> : i \in {j \in Pix : Row(j) < H - 1}}

Abs(x) == IF x < 0 THEN -x ELSE x
Half == K \div 2
Wrap(v) == ((v + Half) % K) - Half
FindWrap(a, b) == IF a - b > Half THEN -1 ELSE IF a - b < -Half THEN 1 ELSE 0

MaskedEdges(m) == {e \in Edges : e[1] \in m /\ e[2] \in m}
Itoh(g, m) == \A e \in MaskedEdges(m) : Abs(g[e[1]] - g[e[2]]) < Half

VARIABLES f, mask, parent, rank, offset, todo, built
vars == <<f, mask, parent, rank, offset, todo, built>>

w(i) == Wrap(f[i])

RECURSIVE Root(_, _), Tot(_, _, _)
Root(p, x) == IF p[x] = x THEN x ELSE Root(p, p[x])
Tot(p, o, x) == IF p[x] = x THEN 0 ELSE o[x] + Tot(p, o, p[x])

Fresh ==
  /\ parent = [i \in Pix |-> i] /\ rank = [i \in Pix |-> 0] /\ offset = [i \in Pix |-> 0]

Init ==
  /\ f \in [Pix -> 0..A] /\ mask \in SUBSET Pix /\ Itoh(f, mask)
  /\ Fresh /\ todo = MaskedEdges(mask) /\ built = N

\* ---- constructive start (simulation) ------------------------------------
BInit == /\ f = [i \in Pix |-> 0] /\ mask = {} /\ Fresh /\ todo = {} /\ built = 0
OkAt(m, i, v) ==   \* v at pixel i is compatible with the neighbours built so far
  \A e \in MaskedEdges(m) :
     /\ (e[1] = i /\ e[2] < i) => Abs(v - f[e[2]]) < Half
     /\ (e[2] = i /\ e[1] < i) => Abs(v - f[e[1]]) < Half
Build ==
  /\ built < N
  /\ \E b \in (IF FullMask THEN {TRUE} ELSE BOOLEAN) : \E v \in 0..A :
        LET m2 == IF b THEN mask \cup {built} ELSE mask IN
        /\ OkAt(m2, built, v)
        /\ f' = [f EXCEPT ![built] = v]
        /\ mask' = m2
        /\ todo' = IF built + 1 = N THEN MaskedEdges(m2) ELSE {}
  /\ built' = built + 1
  /\ UNCHANGED <<parent, rank, offset>>

\* ---- the algorithm ------------------------------------------------------
Union(e) ==
  LET x == e[1]  y == e[2]
      inc == FindWrap(w(x), w(y))
      rx == Root(parent, x)  ry == Root(parent, y)
      delta == Tot(parent, offset, x) - Tot(parent, offset, y) - inc
  IN /\ built = N
     /\ todo' = todo \ {e}
     /\ IF rx = ry THEN UNCHANGED <<parent, rank, offset>>
        ELSE IF rank[rx] < rank[ry]
             THEN /\ parent' = [parent EXCEPT ![rx] = ry]
                  /\ offset' = [offset EXCEPT ![rx] = IF SignBug THEN delta ELSE -delta]
                  /\ rank' = rank
             ELSE /\ parent' = [parent EXCEPT ![ry] = rx]
                  /\ offset' = [offset EXCEPT ![ry] = delta]
                  /\ rank' = IF rank[rx] = rank[ry] THEN [rank EXCEPT ![rx] = @ + 1] ELSE rank
     /\ UNCHANGED <<f, mask, built>>

Next == \E e \in todo : Union(e)
Spec == Init /\ [][Next]_vars
SimNext == Build \/ Next
SimSpec == BInit /\ [][SimNext]_vars

\* ---- properties ---------------------------------------------------------
U(i) == w(i) + K * Tot(parent, offset, i)          \* the unwrapped value

\* inductive: inside one union-find tree the unwrapped differences are the true ones
TreeConsistent ==
  built = N => \A i, j \in Pix : Root(parent, i) = Root(parent, j) => U(i) - U(j) = f[i] - f[j]

RECURSIVE Reach(_, _)
Reach(S, E) ==
  LET S2 == S \cup {e[2] : e \in {d \in E : d[1] \in S}} \cup {e[1] : e \in {d \in E : d[2] \in S}}
  IN IF S2 = S THEN S ELSE Reach(S2, E)
Comp(i) == CHOOSE m \in Reach({i}, MaskedEdges(mask)) : \A j \in Reach({i}, MaskedEdges(mask)) : m <= j

\* when all edges are merged: original field up to one constant per mask component
Final ==
  (built = N /\ todo = {}) =>
     \A i \in mask : \A j \in Reach({i}, MaskedEdges(mask)) : U(i) - U(j) = f[i] - f[j]

\* the result differs from the wrapped input by integer multiples of K (by construction
\* of U) and pixels outside the mask are never touched
Untouched == \A i \in Pix \ mask : parent[i] = i /\ offset[i] = 0

\* ranks bound tree height (sanity of the union-by-rank transcription)
Acyclic == \A i \in Pix : parent[i] # i => rank[parent[i]] > rank[i]

\* ---- export of initial cases for replay into the implementation ---------
AsSeq(g) == [i \in 1..N |-> g[i - 1]]
CaseJson == ToJson([f |-> AsSeq(f), mask |-> AsSeq([i \in Pix |-> IF i \in mask THEN 1 ELSE 0]),
                    comp |-> AsSeq([i \in Pix |-> IF i \in mask THEN Comp(i) ELSE -1]),
                    h |-> H, w |-> W, k |-> K, wrap |-> WrapAround])
EmitInit == (TLCGet("level") = 1) => PrintT(<<"CASE", CaseJson>>)
EmitBuilt == (built = N /\ todo = MaskedEdges(mask)) => PrintT(<<"CASE", CaseJson>>)
OnlyInit == TLCGet("level") < 1
=============================================================================
