SPECIFICATION Spec
CONSTANTS H = 2
          W = 2
          K = 4
          A = 3
          WrapAround = FALSE
          SignBug = FALSE
          FullMask = FALSE
CONSTRAINT OnlyInit
INVARIANT EmitInit
