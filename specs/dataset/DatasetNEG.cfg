SPECIFICATION MCSpec
CONSTANTS LegacyC = {"natural-order"}
          Record = FALSE
          MaxLen = 2
          MaxObjs = 3
          Inits = "small"
          Mode = "c03"
CONSTRAINT Bound
INVARIANT InvCoherent
INVARIANT InvCalWithData
INVARIANT PadCropIdentity
PROPERTY SourceUntouched
PROPERTY OthersUntouched
PROPERTY RaisesUnchanged
PROPERTY BinConserves
PROPERTY ResampleMeta
