----------------------------- MODULE DatasetOps -----------------------------
(***************************************************************************)
(* Dataset containers under any history of operations (C03) and the exact  *)
(* part of the conservation laws of bin / pad / crop / resample (C06).     *)
(*                                                                         *)
(* Every supported operation is separable per axis, so a dataset is        *)
(*   [cls, axes, pins, div, base]                                          *)
(* where each axis carries, for every output position, the BAG of source   *)
(* positions along one axis of a base array that are summed into it        *)
(* (<<>> = padded zero, one element = plain sample, several = a bin), the  *)
(* base axis the data comes from (b), the base axis the calibration comes  *)
(* from (cb), and exact rational origin / sampling.  Integer-indexed axes   *)
(* become pins.  The array of the object is                                *)
(*   out[i1..in] = SUM over s_j in axes[j].src[i_j], p in pins : base[...] / div *)
(* which the harness evaluates on the concrete base array it holds.        *)
(* A Fourier resample re-bases (its data are checked through laws).        *)
(***************************************************************************)
EXTENDS Integers, Sequences, FiniteSets, TLC

CONSTANT Legacy          \* {"natural-order"}: calibration kept in natural axis order (pinned tree)
NONE == 99               \* a missing slice bound

---------------------------------------------------------------------------
(* exact rationals <<num, den>>, den > 0 *)
Abs(x) == IF x < 0 THEN -x ELSE x
RECURSIVE GCD(_, _)
GCD(a, b) == IF b = 0 THEN a ELSE GCD(b, a % b)
RNorm(r) == LET g == GCD(Abs(r[1]), Abs(r[2]))
                sg == IF r[2] < 0 THEN -1 ELSE 1
            IN IF r[1] = 0 THEN <<0, 1>> ELSE <<(sg * r[1]) \div g, (sg * r[2]) \div g>>
RAdd(p, q) == RNorm(<<(p[1] * q[2]) + (q[1] * p[2]), p[2] * q[2]>>)
RSub(p, q) == RAdd(p, <<-q[1], q[2]>>)
RMul(p, q) == RNorm(<<p[1] * q[1], p[2] * q[2]>>)
RInt(n) == <<n, 1>>
RFrac(n, d) == RNorm(<<n, d>>)

---------------------------------------------------------------------------
(* classes *)
ClassNdim == [Dataset |-> 0, Dataset2d |-> 2, Dataset3d |-> 3, Dataset4d |-> 4, Dataset4dstem |-> 4]
ClassOK(cls, nd) == ClassNdim[cls] = 0 \/ ClassNdim[cls] = nd
Registry(nd) == IF nd = 2 THEN "Dataset2d" ELSE IF nd = 3 THEN "Dataset3d" ELSE IF nd = 4 THEN "Dataset4d" ELSE "Dataset"

Axis(b, cb, src, o, s, u) == [b |-> b, cb |-> cb, src |-> src, o |-> o, s |-> s, u |-> u]
Shape(obj) == [j \in DOMAIN obj.axes |-> Len(obj.axes[j].src)]
Identity(n) == [i \in 1..n |-> <<i - 1>>]

\* a fresh dataset over a fresh base array: distinct calibration on every axis
Fresh(cls, shape, baseId) ==
  [cls |-> cls, base |-> baseId, pins |-> <<>>, div |-> 1,
   axes |-> [j \in DOMAIN shape |-> Axis(j, j, Identity(shape[j]), RInt(j), RFrac(j + 1, 2), "u" \o ToString(j))]]

---------------------------------------------------------------------------
(* python slice semantics *)
Clamp(x, lo, hi) == IF x < lo THEN lo ELSE IF x > hi THEN hi ELSE x
RECURSIVE Walk(_, _, _)
Walk(i, stop, c) == IF (c > 0 /\ i >= stop) \/ (c < 0 /\ i <= stop) THEN <<>> ELSE <<i>> \o Walk(i + c, stop, c)
SliceIdx(a, b, c, n) ==
  IF c > 0
  THEN Walk(IF a = NONE THEN 0 ELSE Clamp(IF a < 0 THEN a + n ELSE a, 0, n),
            IF b = NONE THEN n ELSE Clamp(IF b < 0 THEN b + n ELSE b, 0, n), c)
  ELSE Walk(IF a = NONE THEN n - 1 ELSE Clamp(IF a < 0 THEN a + n ELSE a, -1, n - 1),
            IF b = NONE THEN -1 ELSE Clamp(IF b < 0 THEN b + n ELSE b, -1, n - 1), c)

\* per-axis index record: [t: "int"|"slice"|"list", a, b, c, l]
Positions(ix, n) ==
  CASE ix.t = "int" -> <<IF ix.a < 0 THEN ix.a + n ELSE ix.a>>
    [] ix.t = "slice" -> SliceIdx(ix.a, ix.b, ix.c, n)
    [] OTHER -> [k \in DOMAIN ix.l |-> IF ix.l[k] < 0 THEN ix.l[k] + n ELSE ix.l[k]]
IndexOK(obj, expr) ==
  /\ Len(expr) = Len(obj.axes)
  /\ \A j \in DOMAIN expr :
        LET n == Len(obj.axes[j].src) IN
        /\ \A p \in {Positions(expr[j], n)[k] : k \in DOMAIN Positions(expr[j], n)} : p >= 0 /\ p < n
        /\ Len(Positions(expr[j], n)) >= 1
  /\ \E j \in DOMAIN expr : expr[j].t # "int"                       \* at least one axis left
  /\ Cardinality({j \in DOMAIN expr : expr[j].t = "list"}) <= 1     \* at most one list index

\* NumPy's result-axis order: integer indices are advanced indices too; if the advanced
\* indices (ints and the list) are separated by a slice, the list axis comes FIRST,
\* otherwise it stays where the first advanced index stood.
Kept(expr) == SelectSeq([j \in DOMAIN expr |-> j], LAMBDA j : expr[j].t # "int")
AdvPos(expr) == {j \in DOMAIN expr : expr[j].t \in {"int", "list"}}
Contiguous(S) == S = {} \/ \A j \in (CHOOSE lo \in S : \A x \in S : lo <= x)..(CHOOSE hi \in S : \A x \in S : x <= hi) : j \in S
\* The rule is SYNTACTIC: an Ellipsis written between two advanced indices separates them even when it expands
\* to no axis at all (a[:, 0, ..., [0, 1]] on a 3-D array).  ell = position (1-based, in the expanded expression)
\* before which the Ellipsis is written, 0 = none.
SplitByEllipsis(expr, ell) == ell > 0 /\ (\E j \in AdvPos(expr) : j < ell) /\ (\E j \in AdvPos(expr) : j >= ell)
ResultOrder(expr, ell) ==
  LET kept == Kept(expr)
      lst == {j \in DOMAIN expr : expr[j].t = "list"}
  IN IF lst = {} \/ (Contiguous(AdvPos(expr)) /\ ~SplitByEllipsis(expr, ell)) THEN kept
     ELSE LET lj == CHOOSE j \in lst : TRUE
          IN <<lj>> \o SelectSeq(kept, LAMBDA j : j # lj)

IndexResult(obj, expr, ell) ==
  LET order == ResultOrder(expr, ell)
      natural == Kept(expr)
      axOf(j) == LET ax == obj.axes[j]
                     pos == Positions(expr[j], Len(ax.src))
                 IN [ax EXCEPT !.src = [k \in DOMAIN pos |-> ax.src[pos[k] + 1]],
                               !.s = IF expr[j].t = "slice" THEN RMul(ax.s, RInt(expr[j].c)) ELSE ax.s]
      newAxes == [k \in DOMAIN order |->
                    IF "natural-order" \in Legacy
                    THEN \* data in NumPy order, calibration in natural order (pinned tree)
                         [axOf(order[k]) EXCEPT !.o = axOf(natural[k]).o, !.s = axOf(natural[k]).s,
                                                !.u = axOf(natural[k]).u, !.cb = axOf(natural[k]).cb]
                    ELSE axOf(order[k])]
      ints == SelectSeq([j \in DOMAIN expr |-> j], LAMBDA j : expr[j].t = "int")
      newPins == obj.pins \o [k \in DOMAIN ints |->
                    [b |-> obj.axes[ints[k]].b,
                     bag |-> obj.axes[ints[k]].src[Positions(expr[ints[k]], Len(obj.axes[ints[k]].src))[1] + 1]]]
      nd == Len(order)
  IN [obj EXCEPT !.axes = newAxes, !.pins = newPins,
                 !.cls = IF nd = Len(obj.axes) THEN obj.cls ELSE Registry(nd)]

---------------------------------------------------------------------------
(* pad / crop / bin / resample, per axis *)
PadAxis(ax, before, after) ==
  [ax EXCEPT !.src = [k \in 1..before |-> <<>>] \o ax.src \o [k \in 1..after |-> <<>>]]
\* pad to an output length: floor/ceil split, never negative
PadTo(ax, m) == LET n == Len(ax.src)  d == m - n IN
                IF d <= 0 THEN ax ELSE PadAxis(ax, d \div 2, d - (d \div 2))
\* crop: python slice(start, stop) with stop = 0 meaning "to the end"
CropAxis(ax, start, stop) ==
  LET pos == SliceIdx(start, IF stop = 0 THEN NONE ELSE stop, 1, Len(ax.src)) IN
  [ax EXCEPT !.src = [k \in DOMAIN pos |-> ax.src[pos[k] + 1]]]
RECURSIVE ConcatBags(_, _, _)
ConcatBags(src, from, cnt) == IF cnt = 0 THEN <<>> ELSE src[from] \o ConcatBags(src, from + 1, cnt - 1)
BinAxis(ax, f) ==
  LET nb == Len(ax.src) \div f IN
  [ax EXCEPT !.src = [k \in 1..nb |-> ConcatBags(ax.src, ((k - 1) * f) + 1, f)],
             !.s = RMul(ax.s, RInt(f)),
             !.o = RAdd(ax.o, RMul(RFrac(f - 1, 2), ax.s))]
ResampleAxis(ax, m, newBaseAxis) ==
  LET n == Len(ax.src)
      s2 == RMul(ax.s, RFrac(n, m))
  IN [ax EXCEPT !.src = Identity(m), !.b = newBaseAxis, !.cb = IF ax.cb = ax.b THEN newBaseAxis ELSE 0, !.s = s2,
                !.o = RSub(RAdd(ax.o, RMul(RFrac(n - 1, 2), ax.s)), RMul(RFrac(m - 1, 2), s2))]

Pad(obj, widths) ==       \* widths: per axis <<before, after>>
  [obj EXCEPT !.axes = [j \in DOMAIN @ |-> PadAxis(@[j], widths[j][1], widths[j][2])]]
PadShape(obj, out) == [obj EXCEPT !.axes = [j \in DOMAIN @ |-> PadTo(@[j], out[j])]]
Crop(obj, amap) ==        \* amap: function axis -> <<start, stop>>
  [obj EXCEPT !.axes = [j \in DOMAIN @ |-> IF j \in DOMAIN amap THEN CropAxis(@[j], amap[j][1], amap[j][2]) ELSE @[j]]]
Bin(obj, fmap, mean) ==   \* fmap: function axis -> factor
  LET vol == LET F[S \in SUBSET DOMAIN fmap] == IF S = {} THEN 1 ELSE LET x == CHOOSE y \in S : TRUE IN fmap[x] * F[S \ {x}]
             IN F[DOMAIN fmap]
  IN [obj EXCEPT !.axes = [j \in DOMAIN @ |-> IF j \in DOMAIN fmap THEN BinAxis(@[j], fmap[j]) ELSE @[j]],
                 !.div = IF mean THEN @ * vol ELSE @]
\* resample: the result is a function of the whole array: it becomes a new base
Resample(obj, omap, newBase) ==
  [obj EXCEPT !.axes = [j \in DOMAIN @ |-> IF j \in DOMAIN omap THEN ResampleAxis(@[j], omap[j], j)
                                           ELSE [@[j] EXCEPT !.src = Identity(Len(@)), !.b = j,
                                                             !.cb = IF obj.axes[j].cb = obj.axes[j].b THEN j ELSE 0]],
              !.base = newBase, !.pins = <<>>, !.div = 1]

---------------------------------------------------------------------------
(* Invariants over one object *)
Coherent(obj) == ClassOK(obj.cls, Len(obj.axes)) /\ Len(obj.axes) >= 1
\* each result axis carries the calibration of the base axis its data comes from
CalWithData(obj) == \A j \in DOMAIN obj.axes : obj.axes[j].cb = obj.axes[j].b
\* C06, bin: block-centre preservation.  For an axis whose bags are runs of consecutive
\* samples of an identity-calibrated base (o0 + i*s0), the coordinate of output k is the mean
\* coordinate of its bag.
=============================================================================
