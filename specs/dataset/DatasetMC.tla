------------------------------ MODULE DatasetMC ------------------------------
(* Bounded instance of DatasetOps: heap of datasets, curated operation alphabet, *)
(* design invariants (C03) and exact conservation laws (C06), behaviour export.  *)
EXTENDS Integers, Sequences, FiniteSets, TLC, Json

CONSTANTS LegacyC, Record, MaxLen, MaxObjs, Inits, Mode   \* Mode: "c03" curated alphabet | "c06" rich bin/pad/crop/resample arguments
VARIABLES objs, nbase, hist, act
INSTANCE DatasetOps WITH Legacy <- LegacyC
vars == <<objs, nbase, hist, act>>

I(a) == [t |-> "int", a |-> a, b |-> 0, c |-> 1, l |-> <<>>]
S(a, b, c) == [t |-> "slice", a |-> a, b |-> b, c |-> c, l |-> <<>>]
L(l) == [t |-> "list", a |-> 0, b |-> 0, c |-> 1, l |-> l]
Full == S(NONE, NONE, 1)

InitSet ==
  IF Inits = "c06"
  THEN {<<"Dataset", <<5>>>>, <<"Dataset", <<6>>>>, <<"Dataset", <<7>>>>, <<"Dataset2d", <<4, 5>>>>, <<"Dataset2d", <<3, 6>>>>,
        <<"Dataset3d", <<2, 3, 4>>>>, <<"Dataset4d", <<3, 3, 2, 2>>>>, <<"Dataset2d", <<1, 4>>>>}
  ELSE IF Inits = "small"
  THEN {<<"Dataset", <<3>>>>, <<"Dataset2d", <<3, 2>>>>, <<"Dataset3d", <<2, 3, 4>>>>, <<"Dataset4dstem", <<2, 2, 2, 3>>>>}
  ELSE {<<"Dataset", <<3>>>>, <<"Dataset", <<4>>>>, <<"Dataset", <<2, 3>>>>, <<"Dataset2d", <<3, 2>>>>, <<"Dataset2d", <<1, 4>>>>,
        <<"Dataset3d", <<2, 3, 4>>>>, <<"Dataset", <<3, 2, 2>>>>, <<"Dataset4d", <<2, 2, 3, 2>>>>,
        <<"Dataset4dstem", <<2, 2, 2, 3>>>>, <<"Dataset", <<1, 2, 2, 2, 2>>>>}

Log(e) == act' = e /\ hist' = IF Record THEN Append(hist, e) ELSE hist
\* (the exported post-state is the object the action produced or modified; that every other
\* object is untouched is a checked property of the model and is re-checked by the replayer)
Ev(op, i, inplace, arg) == [op |-> op, i |-> i, inplace |-> inplace, arg |-> arg, raises |-> FALSE,
                            post |-> IF inplace THEN objs'[i] ELSE objs'[Len(objs')]]

\* install the result of an operation on object i: in place, or as a new object
Put(i, inplace, new) == objs' = IF inplace THEN [objs EXCEPT ![i] = new] ELSE Append(objs, new)
Room(inplace) == inplace \/ Len(objs) < MaxObjs

MCInit == \E init \in InitSet :
            /\ objs = <<Fresh(init[1], init[2], 1)>> /\ nbase = 1 /\ act = [op |-> "init"]
            /\ hist = IF Record THEN <<[op |-> "from_array", i |-> 0, inplace |-> FALSE, arg |-> init[2], raises |-> FALSE,
                                        post |-> Fresh(init[1], init[2], 1)]>> ELSE <<>>

DoCopy == \E i \in DOMAIN objs : /\ Room(FALSE) /\ Put(i, FALSE, objs[i]) /\ UNCHANGED nbase
                                 /\ Log(Ev("copy", i, FALSE, <<>>))

\* metadata setters: scalar, per-axis list, wrong length (must raise and change nothing)
NewCal(obj, what, form) ==
  [obj EXCEPT !.axes = [j \in DOMAIN @ |->
       CASE what = "origin"   -> [@[j] EXCEPT !.o = IF form = "scalar" THEN RInt(7) ELSE RInt(10 + j)]
         [] what = "sampling" -> [@[j] EXCEPT !.s = IF form = "scalar" THEN RFrac(3, 2) ELSE RFrac(j + 2, 4)]
         [] OTHER             -> [@[j] EXCEPT !.u = "v" \o ToString(j)]]]
DoSet == \E i \in DOMAIN objs, what \in {"origin", "sampling", "units"}, form \in {"scalar", "list", "wronglen"} :
   /\ ~(what = "units" /\ form = "scalar")
   /\ IF form = "wronglen"
      THEN /\ UNCHANGED <<objs, nbase>>
           /\ Log([Ev("set_" \o what, i, TRUE, form) EXCEPT !.raises = TRUE])
      ELSE /\ Put(i, TRUE, NewCal(objs[i], what, form)) /\ UNCHANGED nbase
           /\ Log(Ev("set_" \o what, i, TRUE, form))

Axes(i) == DOMAIN objs[i].axes
Sh(i) == Shape(objs[i])
Nd(i) == Len(objs[i].axes)

PadArgs(i) ==
  {[kind |-> "scalar", w |-> [j \in Axes(i) |-> <<1, 1>>], out |-> <<>>]}
  \cup {[kind |-> "per-axis", w |-> [j \in Axes(i) |-> IF j = k THEN <<1, 0>> ELSE IF j = Nd(i) THEN <<0, 2>> ELSE <<0, 0>>], out |-> <<>>] : k \in {1}}
  \cup {[kind |-> "output_shape", w |-> <<>>, out |-> [j \in Axes(i) |-> IF j = 1 THEN Sh(i)[j] + 1 ELSE IF j = Nd(i) THEN Sh(i)[j] + 2 ELSE Sh(i)[j]]]}
\* python's round(): half to even.  n * p / q rounded, at least 1
RoundHalfEven(num, den) ==
  LET fl == num \div den  r2 == 2 * (num % den) IN
  IF r2 < den THEN fl ELSE IF r2 > den THEN fl + 1 ELSE IF fl % 2 = 0 THEN fl ELSE fl + 1
OutLen(n, fac) == LET m == RoundHalfEven(n * fac[1], fac[2]) IN IF m < 1 THEN 1 ELSE m
FacArgs(i, subsets, facs) ==
  UNION {{[o |-> [j \in A |-> OutLen(Sh(i)[j], fac)], form |-> "factors-tuple", fac |-> fac] : fac \in facs} : A \in subsets}
\* ---- rich arguments (Mode = "c06") ------------------------------------------
AxisSubsets(i) == (SUBSET Axes(i)) \ {{}}
RichBinArgs(i) ==
  UNION {{[f |-> fm, mean |-> m, form |-> "axes"] : fm \in [A -> 1..4], m \in BOOLEAN} : A \in AxisSubsets(i)}
RichResArgs(i) ==
  UNION {{[o |-> om, form |-> "out_shape"] : om \in [A -> {1, 2, 3, 4, 5, 7, 8}]} : A \in {A2 \in AxisSubsets(i) : Cardinality(A2) <= 2}}
  \cup FacArgs(i, {A2 \in AxisSubsets(i) : Cardinality(A2) <= 2}, {<<1, 2>>, <<3, 2>>, <<2, 1>>, <<1, 3>>, <<5, 4>>})
RichPadOut(i) == {[j \in Axes(i) |-> Sh(i)[j] + d[j]] : d \in [Axes(i) -> {0, 1, 3}]}
PadWidthsFor(i, out) == [j \in Axes(i) |-> <<(out[j] - Sh(i)[j]) \div 2, (out[j] - Sh(i)[j]) - ((out[j] - Sh(i)[j]) \div 2)>>]
\* pad to an output shape, then crop exactly the pad widths: one composite event
DoPadCrop == \E i \in DOMAIN objs : \E out \in RichPadOut(i) :
   LET w == PadWidthsFor(i, out)
       res == Crop(PadShape(objs[i], out), [j \in Axes(i) |-> <<w[j][1], -w[j][2]>>])
   IN /\ Mode = "c06" /\ Room(FALSE) /\ Put(i, FALSE, res) /\ UNCHANGED nbase
      /\ Log(Ev("pad_crop", i, FALSE, [out |-> out, w |-> w]))

DoPad == \E i \in DOMAIN objs, inplace \in BOOLEAN : \E a \in PadArgs(i) :
   /\ Room(inplace) /\ \A j \in Axes(i) : Sh(i)[j] <= 5
   /\ Put(i, inplace, IF a.kind = "output_shape" THEN PadShape(objs[i], a.out) ELSE Pad(objs[i], a.w))
   /\ UNCHANGED nbase /\ Log(Ev("pad", i, inplace, a))

CropArgs(i) ==
  {[axes |-> {k}, w |-> [j \in {k} |-> w]] : k \in {1, Nd(i)}, w \in {<<1, 0>>, <<0, -1>>, <<1, -1>>, <<0, 2>>}}
  \cup {[axes |-> Axes(i), w |-> [j \in Axes(i) |-> IF j = 1 THEN <<0, -1>> ELSE <<0, 0>>]]}
DoCrop == \E i \in DOMAIN objs, inplace \in BOOLEAN : \E a \in CropArgs(i) :
   /\ Room(inplace)
   /\ \A j \in Axes(i) : Len(Crop(objs[i], a.w).axes[j].src) >= 1
   /\ Put(i, inplace, Crop(objs[i], a.w)) /\ UNCHANGED nbase
   /\ Log(Ev("crop", i, inplace, [axes |-> a.axes, w |-> a.w, allaxes |-> a.axes = Axes(i)]))

BinArgs(i) ==
  {[f |-> [j \in Axes(i) |-> 2], mean |-> m, form |-> "scalar-all"] : m \in BOOLEAN}
  \cup {[f |-> [j \in {k} |-> fac], mean |-> FALSE, form |-> "axes"] : k \in {1, Nd(i)}, fac \in {2, 3}}
  \cup {[f |-> [j \in {Nd(i)} |-> 2], mean |-> TRUE, form |-> "axes"]}
DoBin == \E i \in DOMAIN objs, inplace \in BOOLEAN : \E a \in (IF Mode = "c06" THEN RichBinArgs(i) ELSE BinArgs(i)) :
   /\ Room(inplace) /\ \A j \in DOMAIN a.f : Sh(i)[j] \div a.f[j] >= 1
   /\ Put(i, inplace, Bin(objs[i], a.f, a.mean)) /\ UNCHANGED nbase
   /\ Log(Ev("bin", i, inplace, a))

ResArgs(i) ==
  {[o |-> [j \in {1} |-> Sh(i)[1] + 1], form |-> "out_shape"], [o |-> [j \in {Nd(i)} |-> Sh(i)[Nd(i)] - 1], form |-> "out_shape"],
   [o |-> [j \in Axes(i) |-> 2 * Sh(i)[j]], form |-> "factors"]}
  \cup FacArgs(i, {{1}, {Nd(i)}}, {<<3, 2>>, <<1, 2>>})
DoResample == \E i \in DOMAIN objs, inplace \in BOOLEAN : \E a \in (IF Mode = "c06" THEN RichResArgs(i) ELSE ResArgs(i)) :
   /\ Room(inplace) /\ \A j \in DOMAIN a.o : a.o[j] >= 1 /\ a.o[j] <= 8
   /\ Put(i, inplace, Resample(objs[i], a.o, nbase + 1)) /\ nbase' = nbase + 1
   /\ Log(Ev("resample", i, inplace, a))

\* index expressions: one non-trivial axis at a time, the mixed (int, slice, list)
\* permutations on the first three axes, and Ellipsis forms (ell = position of "...", 0 = none)
AxisChoices(n) ==
  {I(0), I(-1), S(NONE, NONE, 2), S(NONE, NONE, -1), S(NONE, NONE, -2)}
  \cup (IF n >= 2 THEN {S(1, NONE, 1), S(0, -1, 1), L(<<n - 1, 0>>), S(-2, NONE, 1)} ELSE {})
OneAxis(i) == UNION {{[e |-> [j \in Axes(i) |-> IF j = k THEN c ELSE Full], ell |-> 0, short |-> FALSE] : c \in AxisChoices(Sh(i)[k])} : k \in Axes(i)}
Perm3 == {<<1, 2, 3>>, <<1, 3, 2>>, <<2, 1, 3>>, <<2, 3, 1>>, <<3, 1, 2>>, <<3, 2, 1>>}
Mixed(i) ==
  IF Nd(i) < 3 THEN {}
  ELSE {[e |-> [j \in Axes(i) |-> IF j = p[1] THEN I(0) ELSE IF j = p[2] THEN mid
                                  ELSE IF j = p[3] THEN (IF Sh(i)[j] >= 2 THEN L(<<Sh(i)[j] - 1, 0>>) ELSE L(<<0>>)) ELSE S(NONE, NONE, 1)],
         ell |-> 0, short |-> FALSE] : p \in Perm3, mid \in {Full, S(NONE, NONE, 2), S(NONE, NONE, -1)}}
Ell(i) ==
  IF Nd(i) < 2 THEN {}
  ELSE {[e |-> [j \in Axes(i) |-> IF j = Nd(i) THEN I(0) ELSE Full], ell |-> 1, short |-> FALSE],
        [e |-> [j \in Axes(i) |-> IF j = 1 THEN I(-1) ELSE Full], ell |-> 2, short |-> FALSE],
        [e |-> [j \in Axes(i) |-> IF j = 1 THEN I(0) ELSE Full], ell |-> 0, short |-> TRUE],
        [e |-> [j \in Axes(i) |-> IF j = 1 THEN S(NONE, NONE, 2) ELSE IF j = Nd(i) THEN I(-1) ELSE Full], ell |-> 2, short |-> FALSE]}
       \* an Ellipsis that expands to NO axis: written between an integer and a list (separates them), or at the end
       \cup (IF Nd(i) < 3 THEN {}
            ELSE LET lst(j) == IF Sh(i)[j] >= 2 THEN L(<<Sh(i)[j] - 1, 0>>) ELSE L(<<0>>) IN
                 {[e |-> [j \in Axes(i) |-> IF j = Nd(i) - 1 THEN I(0) ELSE IF j = Nd(i) THEN lst(j) ELSE S(NONE, NONE, 1)], ell |-> Nd(i), short |-> FALSE],
                  [e |-> [j \in Axes(i) |-> IF j = Nd(i) - 1 THEN lst(j) ELSE IF j = Nd(i) THEN I(-1) ELSE S(NONE, NONE, 1)], ell |-> Nd(i), short |-> FALSE],
                  [e |-> [j \in Axes(i) |-> IF j = Nd(i) - 1 THEN I(0) ELSE IF j = Nd(i) THEN lst(j) ELSE S(NONE, NONE, 1)], ell |-> Nd(i) + 1, short |-> FALSE]})
DoIndex == \E i \in DOMAIN objs : \E x \in OneAxis(i) \cup Mixed(i) \cup Ell(i) :
   /\ Room(FALSE) /\ IndexOK(objs[i], x.e)
   /\ Put(i, FALSE, IndexResult(objs[i], x.e, x.ell)) /\ UNCHANGED nbase
   /\ Log(Ev("index", i, FALSE, x))

MCNext == IF Mode = "c06" THEN DoPadCrop \/ DoPad \/ DoCrop \/ DoBin \/ DoResample
          ELSE DoCopy \/ DoSet \/ DoPad \/ DoCrop \/ DoBin \/ DoResample \/ DoIndex
MCSpec == MCInit /\ [][MCNext]_vars
Bound == TLCGet("level") <= (IF Record THEN MaxLen - 1 ELSE MaxLen)

---------------------------------------------------------------------------
(* C03 *)
InvCoherent == \A i \in DOMAIN objs : Coherent(objs[i])
InvCalWithData == \A i \in DOMAIN objs : CalWithData(objs[i])
\* operations that return a new dataset leave every existing object untouched
SourceUntouched == [][ (act'.op # "init" /\ ~act'.inplace) => \A i \in DOMAIN objs : objs'[i] = objs[i] ]_vars
\* an in-place operation changes only its target
OthersUntouched == [][ (act'.op # "init" /\ act'.inplace) => \A i \in DOMAIN objs : i # act'.i => objs'[i] = objs[i] ]_vars
\* a raising setter changes nothing
RaisesUnchanged == [][ (act'.op # "init" /\ act'.raises) => objs' = objs ]_vars

(* C06 — exact laws on the bag model *)
RECURSIVE Flat(_)
Flat(src) == IF src = <<>> THEN <<>> ELSE Head(src) \o Flat(Tail(src))
SeqSet(s) == {s[k] : k \in DOMAIN s}
\* bin drops only the trailing remainder, every covered sample is counted exactly once
BinConserves ==
  [][ act'.op = "bin" =>
        LET old == objs[act'.i]
            new == IF act'.inplace THEN objs'[act'.i] ELSE objs'[Len(objs')]
        IN \A j \in DOMAIN old.axes :
             IF j \in DOMAIN act'.arg.f
             THEN LET f == act'.arg.f[j]  nb == Len(old.axes[j].src) \div f IN
                  /\ Len(new.axes[j].src) = nb
                  /\ Flat(new.axes[j].src) = Flat(SubSeq(old.axes[j].src, 1, nb * f))
                  \* block-centre preservation: o' + k s' = mean_{i in block k} (o + i s)
                  /\ \A k \in 0..(nb - 1) :
                        RAdd(new.axes[j].o, RMul(RInt(k), new.axes[j].s))
                          = RAdd(old.axes[j].o, RMul(RFrac((2 * k * f) + f - 1, 2), old.axes[j].s))
             ELSE new.axes[j] = old.axes[j] ]_vars
\* pad to an output shape followed by cropping the pad widths is the identity
PadCropIdentity ==
  \A i \in DOMAIN objs : \A d \in {1, 2, 3} :
     LET o == objs[i]
         out == [j \in DOMAIN o.axes |-> Len(o.axes[j].src) + (IF j = 1 THEN d ELSE 0)]
         padded == PadShape(o, out)
         wl(j) == (out[j] - Len(o.axes[j].src)) \div 2
         wr(j) == (out[j] - Len(o.axes[j].src)) - wl(j)
     IN Crop(padded, [j \in DOMAIN o.axes |-> <<wl(j), -wr(j)>>]) = o
\* resample keeps the physical centre and the extent of the field of view
ResampleMeta ==
  [][ act'.op = "resample" =>
        LET old == objs[act'.i]
            new == IF act'.inplace THEN objs'[act'.i] ELSE objs'[Len(objs')]
        IN \A j \in DOMAIN old.axes :
             LET n == Len(old.axes[j].src)  m == Len(new.axes[j].src) IN
             /\ RMul(RInt(m), new.axes[j].s) = RMul(RInt(n), old.axes[j].s)
             /\ RAdd(new.axes[j].o, RMul(RFrac(m - 1, 2), new.axes[j].s))
                  = RAdd(old.axes[j].o, RMul(RFrac(n - 1, 2), old.axes[j].s)) ]_vars

Emit == (Record /\ Len(hist) = MaxLen) => PrintT(<<"CASE", ToJson(hist)>>)
=============================================================================
