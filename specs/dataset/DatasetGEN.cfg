SPECIFICATION MCSpec
CONSTANTS LegacyC = {}
          Record = TRUE
          MaxLen = 2
          MaxObjs = 3
          Inits = "small"
          Mode = "c03"
CONSTRAINT Bound
INVARIANT Emit
