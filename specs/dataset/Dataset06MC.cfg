SPECIFICATION MCSpec
CONSTANTS LegacyC = {}
          Record = FALSE
          MaxLen = 2
          MaxObjs = 3
          Inits = "c06"
          Mode = "c06"
CONSTRAINT Bound
INVARIANT InvCoherent
INVARIANT InvCalWithData
INVARIANT PadCropIdentity
PROPERTY SourceUntouched
PROPERTY OthersUntouched
PROPERTY RaisesUnchanged
PROPERTY BinConserves
PROPERTY ResampleMeta
