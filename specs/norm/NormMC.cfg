SPECIFICATION Spec
CONSTANTS MaxLen = 4
          ClipBug = FALSE
INVARIANT Range
INVARIANT Monotone
INVARIANT EndPoints
INVARIANT NaNMasked
INVARIANT AffineInvariant
