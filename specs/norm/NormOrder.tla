------------------------------ MODULE NormOrder ------------------------------
(***************************************************************************)
(* Display normalisation (property C20), ordinal / exact-rational model.   *)
(*                                                                         *)
(* Data are short sequences over small integers and the tokens NaN, +inf,  *)
(* -inf.  An interval (manual, centred, quantile) yields limits lo < hi    *)
(* as exact rationals (the quantile uses linear interpolation between      *)
(* order statistics of the finite values); every element is mapped to      *)
(* u = clip((x - lo) / (hi - lo), 0, 1), NaN is masked, +inf -> 1,         *)
(* -inf -> 0.  A stretch is abstracted to ANY strictly increasing          *)
(* bijection of [0, 1] fixing 0 and 1, so the model predicts for every     *)
(* element masked / 0 / 1 / interior and the ORDER among the outputs,      *)
(* which decides the range, end-point, monotonicity and NaN clauses        *)
(* without real arithmetic.                                                *)
(***************************************************************************)
EXTENDS Integers, Sequences, FiniteSets, TLC, Json

CONSTANTS MaxLen, ClipBug,    \* ClipBug: negative control (no clipping below the lower limit)
          FrozenBug           \* negative control: data-derived limits of an EARLIER array are kept
NAN == 100  PINF == 101  NINF == 102
Vals == {0, 1, 2, 4}
Elems == Vals \cup {NAN, PINF, NINF}
IsFinite(x) == x \in Vals

\* rationals
Abs(x) == IF x < 0 THEN -x ELSE x
RECURSIVE GCD(_, _)
GCD(a, b) == IF b = 0 THEN a ELSE GCD(b, a % b)
RNorm(r) == LET g == GCD(Abs(r[1]), Abs(r[2]))  sg == IF r[2] < 0 THEN -1 ELSE 1
            IN IF r[1] = 0 THEN <<0, 1>> ELSE <<(sg * r[1]) \div g, (sg * r[2]) \div g>>
RSub(p, q) == RNorm(<<(p[1] * q[2]) - (q[1] * p[2]), p[2] * q[2]>>)
RAdd(p, q) == RNorm(<<(p[1] * q[2]) + (q[1] * p[2]), p[2] * q[2]>>)
RMul(p, q) == RNorm(<<p[1] * q[1], p[2] * q[2]>>)
RDiv(p, q) == RNorm(<<p[1] * q[2], p[2] * q[1]>>)
RLe(p, q) == p[1] * q[2] <= q[1] * p[2]
RLt(p, q) == p[1] * q[2] < q[1] * p[2]
RI(n) == <<n, 1>>
NONE == <<0, 0>>          \* "not given" (a rational with denominator 0)
IsNone(x) == x[2] = 0

\* warm: an array the same normalisation object was applied to BEFORE (<<>> = none).  A normalisation whose
\* limits are taken at call time is a function of the current array only.
VARIABLES data, cfg, lo, hi, out, phase, warm
vars == <<data, cfg, lo, hi, out, phase, warm>>

Finite(d) == SelectSeq(d, IsFinite)
RECURSIVE SortAsc(_)
SortAsc(s) == IF s = <<>> THEN <<>>
              ELSE LET m == CHOOSE i \in DOMAIN s : \A j \in DOMAIN s : s[i] <= s[j]
                   IN <<s[m]>> \o SortAsc([k \in 1..(Len(s) - 1) |-> IF k < m THEN s[k] ELSE s[k + 1]])
\* The stored value of a finite element x under the affine embedding af = <<a, b>> (a > 0) is a*x + b: the
\* same array written in another unit / integer dtype (e.g. int8 data -100, -50, 0, 100 is af = <<50, -100>>).
\* Everything below is parametrised by af; the identity embedding <<1, 0>> is the plain model.
Id == <<1, 0>>
V(x, af) == (af[1] * x) + af[2]
MinF(d, af) == V(SortAsc(Finite(d))[1], af)
MaxF(d, af) == V(SortAsc(Finite(d))[Len(Finite(d))], af)
\* numpy.quantile, linear interpolation: position h = (n - 1) q
Quantile(d, q, af) ==
  LET srt == SortAsc(Finite(d))  nn == Len(srt)
      h == RMul(RI(nn - 1), q)
      fl == h[1] \div h[2]
      frac == RSub(h, RI(fl))
  IN IF fl + 1 >= nn THEN RI(V(srt[nn], af))
     ELSE RAdd(RI(V(srt[fl + 1], af)), RMul(frac, RI(V(srt[fl + 2], af) - V(srt[fl + 1], af))))

\* a configuration written in the embedded unit: given limits and centre move with the data, a half range scales
CfgAff(c, af) == [c EXCEPT !.lo = IF IsNone(@) THEN @ ELSE RAdd(RMul(RI(af[1]), @), RI(af[2])),
                           !.hi = IF IsNone(@) THEN @ ELSE RAdd(RMul(RI(af[1]), @), RI(af[2])),
                           !.c = RAdd(RMul(RI(af[1]), @), RI(af[2])),
                           !.h2 = IF IsNone(@) THEN @ ELSE RMul(RI(af[1]), @)]

\* limits for data embedded by af and a configuration c written in that unit
Limits(d, c, af) ==
  CASE c.t = "manual"   -> <<IF IsNone(c.lo) THEN RI(MinF(d, af)) ELSE c.lo, IF IsNone(c.hi) THEN RI(MaxF(d, af)) ELSE c.hi>>
    [] c.t = "centered" -> LET h == IF IsNone(c.h2)
                                    THEN (LET a == RSub(RI(MinF(d, af)), c.c)  b == RSub(RI(MaxF(d, af)), c.c)
                                              aa == IF a[1] < 0 THEN <<-a[1], a[2]>> ELSE a
                                              bb == IF b[1] < 0 THEN <<-b[1], b[2]>> ELSE b
                                          IN IF RLe(aa, bb) THEN bb ELSE aa)
                                    ELSE c.h2
                           IN <<RSub(c.c, h), RAdd(c.c, h)>>
    [] OTHER -> <<Quantile(d, c.ql, af), Quantile(d, c.qu, af)>>

Z == <<0, 1>>
Cfgs == {[t |-> "manual", lo |-> l, hi |-> h, c |-> Z, h2 |-> NONE, ql |-> Z, qu |-> Z] : l \in {NONE, <<-1, 1>>, <<1, 1>>, <<1, 2>>, <<2, 1>>}, h \in {NONE, <<3, 1>>, <<5, 2>>, <<2, 1>>}}
        \* (the limit 2 becomes exactly 0 under the embedding <<50, -100>>: a given limit of 0 is a value, not "missing")
        \cup {[t |-> "centered", lo |-> NONE, hi |-> NONE, c |-> c, h2 |-> h, ql |-> Z, qu |-> Z] : c \in {<<0, 1>>, <<2, 1>>}, h \in {NONE, <<1, 1>>, <<3, 1>>}}
        \cup {[t |-> "quantile", lo |-> NONE, hi |-> NONE, c |-> Z, h2 |-> NONE, ql |-> q[1], qu |-> q[2]] : q \in {<< <<0, 1>>, <<1, 1>> >>, << <<1, 4>>, <<3, 4>> >>,
                                                                  << <<0, 1>>, <<1, 2>> >>, << <<1, 50>>, <<49, 50>> >>}}

Clip01(u) == IF RLt(u, RI(0)) THEN (IF ClipBug THEN u ELSE RI(0)) ELSE IF RLt(RI(1), u) THEN RI(1) ELSE u
MapL(x, l, h, af) ==
          CASE x = NAN -> [k |-> "masked", u |-> RI(0)]
            [] x = PINF -> [k |-> "num", u |-> RI(1)]
            [] x = NINF -> [k |-> "num", u |-> IF ClipBug THEN RI(-1) ELSE RI(0)]
            [] OTHER -> [k |-> "num", u |-> Clip01(RDiv(RSub(RI(V(x, af)), l), RSub(h, l)))]
Map(x) == MapL(x, lo, hi, Id)

Init == /\ data \in UNION {[1..n -> Elems] : n \in 2..MaxLen}
        /\ Cardinality({data[i] : i \in {j \in DOMAIN data : IsFinite(data[j])}}) >= 2     \* two distinct finite values
        /\ cfg \in Cfgs
        /\ warm \in {<<>>, <<1, 4, 2>>}
        /\ LET src == IF FrozenBug /\ warm # <<>> THEN warm ELSE data
           IN lo = Limits(src, cfg, Id)[1] /\ hi = Limits(src, cfg, Id)[2]
        /\ RLt(lo, hi)                                                                     \* a proper interval
        /\ out = <<>> /\ phase = "new"
Normalize == /\ phase = "new" /\ out' = [i \in DOMAIN data |-> Map(data[i])] /\ phase' = "done"
             /\ UNCHANGED <<data, cfg, lo, hi, warm>>
Next == Normalize
Spec == Init /\ [][Next]_vars

\* order of extended values
Leq(x, y) == \/ x = NINF \/ y = PINF \/ (IsFinite(x) /\ IsFinite(y) /\ x <= y) \/ x = y
Range == phase = "done" => \A i \in DOMAIN out : out[i].k = "num" => (RLe(RI(0), out[i].u) /\ RLe(out[i].u, RI(1)))
Monotone == phase = "done" => \A i, j \in DOMAIN out :
              (data[i] # NAN /\ data[j] # NAN /\ Leq(data[i], data[j])) => RLe(out[i].u, out[j].u)
EndPoints == phase = "done" => \A i \in DOMAIN out :
              /\ (IsFinite(data[i]) /\ RI(data[i]) = lo) => out[i].u = RI(0)
              /\ (IsFinite(data[i]) /\ RI(data[i]) = hi) => out[i].u = RI(1)
\* the normalised values do not depend on the unit / integer dtype the data are stored in
\* <<1024, 0>>: a pure change of unit by a large factor; read backwards (the identity is the image of the data stored in
\* units 1024 times coarser) it also stands for arbitrarily SMALL data ranges - the replay stores the data scaled by
\* 2^-30, 2^-44 and 2^40 in float types
Affs == {<<50, -100>>, <<15000, -30000>>, <<60, 0>>, <<15000, 0>>, <<3, 7>>, <<1024, 0>>}
AffineInvariant == phase = "done" => \A af \in Affs :
   LET c2 == CfgAff(cfg, af)  lim == Limits(data, c2, af)
   IN \A i \in DOMAIN out : MapL(data[i], lim[1], lim[2], af) = out[i]
\* limits taken at call time belong to the CURRENT array, whatever the object was applied to before
LimitsOfCurrentData == lo = Limits(data, cfg, Id)[1] /\ hi = Limits(data, cfg, Id)[2]
NaNMasked == phase = "done" => \A i \in DOMAIN out : (data[i] = NAN) <=> (out[i].k = "masked")

Emit == phase = "done" => PrintT(<<"CASE", ToJson([data |-> data, cfg |-> cfg, lo |-> lo, hi |-> hi, out |-> out, warm |-> warm])>>)
=============================================================================
