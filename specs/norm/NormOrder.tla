------------------------------ MODULE NormOrder ------------------------------
(***************************************************************************)
(* Display normalisation (property C20), ordinal / exact-rational model.   *)
(*                                                                         *)
(* Data are short sequences over small integers and the tokens NaN, +inf,  *)
(* -inf.  An interval (manual, centred, quantile) yields limits lo < hi    *)
(* as exact rationals (the quantile uses linear interpolation between      *)
(* order statistics of the finite values); every element is mapped to      *)
(* u = clip((x - lo) / (hi - lo), 0, 1), NaN is masked, +inf -> 1,         *)
(* -inf -> 0.  A stretch is abstracted to ANY strictly increasing          *)
(* bijection of [0, 1] fixing 0 and 1, so the model predicts for every     *)
(* element masked / 0 / 1 / interior and the ORDER among the outputs,      *)
(* which decides the range, end-point, monotonicity and NaN clauses        *)
(* without real arithmetic.                                                *)
(***************************************************************************)
EXTENDS Integers, Sequences, FiniteSets, TLC, Json

CONSTANTS MaxLen, ClipBug     \* ClipBug: negative control (no clipping below the lower limit)
NAN == 100  PINF == 101  NINF == 102
Vals == {0, 1, 2, 4}
Elems == Vals \cup {NAN, PINF, NINF}
IsFinite(x) == x \in Vals

\* rationals
Abs(x) == IF x < 0 THEN -x ELSE x
RECURSIVE GCD(_, _)
GCD(a, b) == IF b = 0 THEN a ELSE GCD(b, a % b)
RNorm(r) == LET g == GCD(Abs(r[1]), Abs(r[2]))  sg == IF r[2] < 0 THEN -1 ELSE 1
            IN IF r[1] = 0 THEN <<0, 1>> ELSE <<(sg * r[1]) \div g, (sg * r[2]) \div g>>
RSub(p, q) == RNorm(<<(p[1] * q[2]) - (q[1] * p[2]), p[2] * q[2]>>)
RAdd(p, q) == RNorm(<<(p[1] * q[2]) + (q[1] * p[2]), p[2] * q[2]>>)
RMul(p, q) == RNorm(<<p[1] * q[1], p[2] * q[2]>>)
RDiv(p, q) == RNorm(<<p[1] * q[2], p[2] * q[1]>>)
RLe(p, q) == p[1] * q[2] <= q[1] * p[2]
RLt(p, q) == p[1] * q[2] < q[1] * p[2]
RI(n) == <<n, 1>>
NONE == <<0, 0>>          \* "not given" (a rational with denominator 0)
IsNone(x) == x[2] = 0

VARIABLES data, cfg, lo, hi, out, phase
vars == <<data, cfg, lo, hi, out, phase>>

Finite(d) == SelectSeq(d, IsFinite)
RECURSIVE SortAsc(_)
SortAsc(s) == IF s = <<>> THEN <<>>
              ELSE LET m == CHOOSE i \in DOMAIN s : \A j \in DOMAIN s : s[i] <= s[j]
                   IN <<s[m]>> \o SortAsc([k \in 1..(Len(s) - 1) |-> IF k < m THEN s[k] ELSE s[k + 1]])
MinF(d) == SortAsc(Finite(d))[1]
MaxF(d) == SortAsc(Finite(d))[Len(Finite(d))]
\* numpy.quantile, linear interpolation: position h = (n - 1) q
Quantile(d, q) ==
  LET srt == SortAsc(Finite(d))  nn == Len(srt)
      h == RMul(RI(nn - 1), q)
      fl == h[1] \div h[2]
      frac == RSub(h, RI(fl))
  IN IF fl + 1 >= nn THEN RI(srt[nn])
     ELSE RAdd(RI(srt[fl + 1]), RMul(frac, RI(srt[fl + 2] - srt[fl + 1])))

Limits(d, c) ==
  CASE c.t = "manual"   -> <<IF IsNone(c.lo) THEN RI(MinF(d)) ELSE c.lo, IF IsNone(c.hi) THEN RI(MaxF(d)) ELSE c.hi>>
    [] c.t = "centered" -> LET h == IF IsNone(c.h2)
                                    THEN (LET a == RSub(RI(MinF(d)), c.c)  b == RSub(RI(MaxF(d)), c.c)
                                              aa == IF a[1] < 0 THEN <<-a[1], a[2]>> ELSE a
                                              bb == IF b[1] < 0 THEN <<-b[1], b[2]>> ELSE b
                                          IN IF RLe(aa, bb) THEN bb ELSE aa)
                                    ELSE c.h2
                           IN <<RSub(c.c, h), RAdd(c.c, h)>>
    [] OTHER -> <<Quantile(d, c.ql), Quantile(d, c.qu)>>

Z == <<0, 1>>
Cfgs == {[t |-> "manual", lo |-> l, hi |-> h, c |-> Z, h2 |-> NONE, ql |-> Z, qu |-> Z] : l \in {NONE, <<-1, 1>>, <<1, 1>>, <<1, 2>>}, h \in {NONE, <<3, 1>>, <<5, 2>>}}
        \cup {[t |-> "centered", lo |-> NONE, hi |-> NONE, c |-> c, h2 |-> h, ql |-> Z, qu |-> Z] : c \in {<<0, 1>>, <<2, 1>>}, h \in {NONE, <<1, 1>>, <<3, 1>>}}
        \cup {[t |-> "quantile", lo |-> NONE, hi |-> NONE, c |-> Z, h2 |-> NONE, ql |-> q[1], qu |-> q[2]] : q \in {<< <<0, 1>>, <<1, 1>> >>, << <<1, 4>>, <<3, 4>> >>,
                                                                  << <<0, 1>>, <<1, 2>> >>, << <<1, 50>>, <<49, 50>> >>}}

Clip01(u) == IF RLt(u, RI(0)) THEN (IF ClipBug THEN u ELSE RI(0)) ELSE IF RLt(RI(1), u) THEN RI(1) ELSE u
Map(x) == CASE x = NAN -> [k |-> "masked", u |-> RI(0)]
            [] x = PINF -> [k |-> "num", u |-> RI(1)]
            [] x = NINF -> [k |-> "num", u |-> IF ClipBug THEN RI(-1) ELSE RI(0)]
            [] OTHER -> [k |-> "num", u |-> Clip01(RDiv(RSub(RI(x), lo), RSub(hi, lo)))]

Init == /\ data \in UNION {[1..n -> Elems] : n \in 2..MaxLen}
        /\ Cardinality({data[i] : i \in {j \in DOMAIN data : IsFinite(data[j])}}) >= 2     \* two distinct finite values
        /\ cfg \in Cfgs
        /\ lo = Limits(data, cfg)[1] /\ hi = Limits(data, cfg)[2]
        /\ RLt(lo, hi)                                                                     \* a proper interval
        /\ out = <<>> /\ phase = "new"
Normalize == /\ phase = "new" /\ out' = [i \in DOMAIN data |-> Map(data[i])] /\ phase' = "done"
             /\ UNCHANGED <<data, cfg, lo, hi>>
Next == Normalize
Spec == Init /\ [][Next]_vars

\* order of extended values
Leq(x, y) == \/ x = NINF \/ y = PINF \/ (IsFinite(x) /\ IsFinite(y) /\ x <= y) \/ x = y
Range == phase = "done" => \A i \in DOMAIN out : out[i].k = "num" => (RLe(RI(0), out[i].u) /\ RLe(out[i].u, RI(1)))
Monotone == phase = "done" => \A i, j \in DOMAIN out :
              (data[i] # NAN /\ data[j] # NAN /\ Leq(data[i], data[j])) => RLe(out[i].u, out[j].u)
EndPoints == phase = "done" => \A i \in DOMAIN out :
              /\ (IsFinite(data[i]) /\ RI(data[i]) = lo) => out[i].u = RI(0)
              /\ (IsFinite(data[i]) /\ RI(data[i]) = hi) => out[i].u = RI(1)
NaNMasked == phase = "done" => \A i \in DOMAIN out : (data[i] = NAN) <=> (out[i].k = "masked")

Emit == phase = "done" => PrintT(<<"CASE", ToJson([data |-> data, cfg |-> cfg, lo |-> lo, hi |-> hi, out |-> out])>>)
=============================================================================
