SPECIFICATION Spec
CONSTANTS MaxLen = 3
          ClipBug = FALSE
          FrozenBug = FALSE
INVARIANT Emit
