SPECIFICATION Spec
CONSTANTS MaxLen = 3
          ClipBug = FALSE
INVARIANT Emit
