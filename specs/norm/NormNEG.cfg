SPECIFICATION Spec
CONSTANTS MaxLen = 4
          ClipBug = TRUE
INVARIANT Range
INVARIANT Monotone
INVARIANT EndPoints
INVARIANT NaNMasked
INVARIANT AffineInvariant
