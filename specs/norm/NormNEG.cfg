SPECIFICATION Spec
CONSTANTS MaxLen = 4
          ClipBug = TRUE
          FrozenBug = FALSE
INVARIANT Range
INVARIANT Monotone
INVARIANT EndPoints
INVARIANT NaNMasked
INVARIANT LimitsOfCurrentData
INVARIANT AffineInvariant
