SPECIFICATION Spec
CONSTANTS MaxLen = 4
          ClipBug = FALSE
          FrozenBug = TRUE
INVARIANT Range
INVARIANT Monotone
INVARIANT EndPoints
INVARIANT NaNMasked
INVARIANT LimitsOfCurrentData
INVARIANT AffineInvariant
