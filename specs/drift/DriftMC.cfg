SPECIFICATION Spec
CONSTANTS Shapes <- ShapesDef
          Angles <- AnglesDef
          PFs <- PFsDef
          KnotBug = FALSE
INVARIANT KnotIndependent
INVARIANT CentreToCentre
INVARIANT Injective
