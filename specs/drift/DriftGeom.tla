------------------------------ MODULE DriftGeom ------------------------------
(***************************************************************************)
(* Start geometry of drift correction (property C15), exact for scan       *)
(* directions that are multiples of 90 degrees.                            *)
(*                                                                         *)
(* An image of R x C pixels is resampled onto a padded canvas.  Pixel      *)
(* (r, c) has the offset (v, u) = (r - (R-1)/2, c - (C-1)/2) from the      *)
(* image centre (v: slow axis, u: fast axis) and lands at                  *)
(*   centre + u * fast(theta) + v * slow(theta)                            *)
(* with fast = (sin(-theta), cos(-theta)), slow = (cos(-theta),            *)
(* -sin(-theta)) and centre = ((H-1)/2, (W-1)/2) of the canvas.            *)
(* All coordinates are kept DOUBLED so that half-integers are integers.    *)
(* A scan line may be described by K = 1..4 knots; the specification says  *)
(* the coordinates do not depend on K (KnotIndependent): the line through  *)
(* the knots is straight, so interpolating K equally spaced knots gives    *)
(* the same points.  Canvas shape: 2 * round(n * (1 + pf) / 2) with        *)
(* round-half-to-even, pf = PF[1] / PF[2].                                 *)
(***************************************************************************)
EXTENDS Integers, Sequences, FiniteSets, TLC, Json

CONSTANTS Shapes, Angles, PFs, KnotBug    \* KnotBug: pinned-tree single-knot extent (rows-1 instead of cols-1)
ShapesDef == {<<4, 4>>, <<5, 5>>, <<6, 10>>, <<10, 6>>, <<5, 8>>, <<7, 4>>, <<3, 9>>}
AnglesDef == {0, 90, 180, 270}
PFsDef == {<<1, 4>>, <<0, 1>>, <<1, 2>>, <<1, 10>>, <<3, 8>>}
VARIABLES R, C, theta, pf, K, pc
vars == <<R, C, theta, pf, K, pc>>

Sin(t) == CASE t = 0 -> 0 [] t = 90 -> 1 [] t = 180 -> 0 [] OTHER -> -1
Cos(t) == CASE t = 0 -> 1 [] t = 90 -> 0 [] t = 180 -> -1 [] OTHER -> 0
Fast == <<-Sin(theta), Cos(theta)>>          \* (sin(-t), cos(-t))
Slow == <<Cos(theta), Sin(theta)>>           \* (cos(-t), -sin(-t))

RoundHalfEven(num, den) ==
  LET fl == num \div den  r2 == 2 * (num % den) IN
  IF r2 < den THEN fl ELSE IF r2 > den THEN fl + 1 ELSE IF fl % 2 = 0 THEN fl ELSE fl + 1
Canvas(n) == 2 * RoundHalfEven(n * (pf[2] + pf[1]), 2 * pf[2])
H == Canvas(R)
W == Canvas(C)

\* doubled coordinates of pixel (r, c)
U2(c) == (2 * c) - (C - 1)
V2(r) == (2 * r) - (R - 1)
X2(r, c) == (H - 1) + (U2(c) * Fast[1]) + (V2(r) * Slow[1])
Y2(r, c) == (W - 1) + (U2(c) * Fast[2]) + (V2(r) * Slow[2])

\* K knots per scan line: knot j of row r sits at fast offset u_j = -(C-1)/2 + (j-1)(C-1)/(K-1)
\* (K = 1: the line start only; the line is then continued along `fast` over the fast-axis extent C-1).
\* The point of column c on the straight line through the knots, times 2*(K-1) for integrality:
LineX(r, c, k) ==
  IF k = 1 THEN LET ext == IF KnotBug THEN R - 1 ELSE C - 1 IN
                \* knot + u(c) * fast * extent, u(c) = c / (C-1)   (doubled, times (C-1))
                ((X2(r, 0)) * (C - 1)) + (2 * c * Fast[1] * ext)
  ELSE X2(r, c) * (C - 1)
LineY(r, c, k) ==
  IF k = 1 THEN LET ext == IF KnotBug THEN R - 1 ELSE C - 1 IN
                ((Y2(r, 0)) * (C - 1)) + (2 * c * Fast[2] * ext)
  ELSE Y2(r, c) * (C - 1)

Init == /\ \E s \in Shapes : (R = s[1] /\ C = s[2]) /\ theta \in Angles /\ pf \in PFs /\ K = 1 /\ pc = "start"
NextK == /\ K < 4 /\ K' = K + 1 /\ UNCHANGED <<R, C, theta, pf, pc>>
Next == NextK
Spec == Init /\ [][Next]_vars

KnotIndependent == C > 1 => \A r \in 0..(R - 1), c \in 0..(C - 1) :
     LineX(r, c, K) = X2(r, c) * (C - 1) /\ LineY(r, c, K) = Y2(r, c) * (C - 1)
\* the image centre lands on the canvas centre, and opposite pixels are placed symmetrically
CentreToCentre == \A r \in 0..(R - 1), c \in 0..(C - 1) :
     X2(r, c) + X2(R - 1 - r, C - 1 - c) = 2 * (H - 1) /\ Y2(r, c) + Y2(R - 1 - r, C - 1 - c) = 2 * (W - 1)
\* does the rotated image fit on the canvas with a margin of `mg` pixels?  (the unit-weight clause needs it)
Fits(mg) == \A r \in 0..(R - 1), c \in 0..(C - 1) :
     /\ X2(r, c) >= 2 * mg /\ X2(r, c) <= 2 * (H - 1 - mg) /\ Y2(r, c) >= 2 * mg /\ Y2(r, c) <= 2 * (W - 1 - mg)
\* the map is injective (a rigid motion)
Injective == \A r1, r2 \in 0..(R - 1), c1, c2 \in 0..(C - 1) :
     (X2(r1, c1) = X2(r2, c2) /\ Y2(r1, c1) = Y2(r2, c2)) => (r1 = r2 /\ c1 = c2)

Emit == K = 1 => PrintT(<<"CASE", ToJson([r |-> R, c |-> C, theta |-> theta, pf |-> pf, h |-> H, w |-> W, fits |-> Fits(2),
                                      x2 |-> [i \in 1..R |-> [j \in 1..C |-> X2(i - 1, j - 1)]],
                                      y2 |-> [i \in 1..R |-> [j \in 1..C |-> Y2(i - 1, j - 1)]]])>>)
=============================================================================
