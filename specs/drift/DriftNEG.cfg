SPECIFICATION Spec
CONSTANTS Shapes <- ShapesDef
          Angles <- AnglesDef
          PFs <- PFsDef
          KnotBug = TRUE
INVARIANT KnotIndependent
INVARIANT CentreToCentre
INVARIANT Injective
