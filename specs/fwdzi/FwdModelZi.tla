----------------------------- MODULE FwdModelZi -----------------------------
(***************************************************************************)
(* An independent reference implementation of the multislice, mixed-state  *)
(* ptychographic forward model over the GAUSSIAN INTEGERS (property C02).  *)
(*                                                                         *)
(* Detector ROI of RY x RX pixels with RY, RX in {2, 4}: the DFT matrices  *)
(* have entries in {1, -i, -1, i}.  Objects are pure phase in quarter      *)
(* turns (transmission i^q), probe modes have small Gaussian-integer       *)
(* entries, scan positions are integers on a periodic NY x NX object grid, *)
(* and slices are a quarter-wave apart (the Fresnel phase on the ROI grid  *)
(* is a multiple of pi/2:  (-i)^(a^2 + b^2), a, b signed frequency         *)
(* indices scaled per axis).  Everything is exact integer arithmetic.      *)
(*                                                                         *)
(* The pipeline is a state machine - Start, Transmit, ToSpectrum, Propagate,  *)
(* Back, Detect - one array operation per step, for every scan position,   *)
(* probe mode and slice in turn.                                           *)
(*                                                                         *)
(* Conventions being specified (they are what the library must agree       *)
(* with): corner-centred probe and patch offsets in fftfreq order with     *)
(* wrap-around on the object; transmit, then propagate between slices      *)
(* (not after the last); far field = |DFT|^2 / (RY*RX) summed incoherently *)
(* over modes; detector patterns are fftshift-ed.                          *)
(***************************************************************************)
EXTENDS Integers, Sequences, FiniteSets, TLC, Json

CONSTANTS RY, RX, NY, NX, NS, NM, Pos,   \* ROI, object grid, slices, modes, scan positions <<r, c>> in HALF pixels (doubled)
          Half,                           \* TRUE: some position is a half pixel (ROI 2x2 only): probes are Fourier-shifted
          PropR, PropC,                   \* Fresnel exponent per axis: phase = (-i)^(PropR*a^2 + PropC*b^2)
          TwiddleBug                      \* negative control: wrong twiddle exponent

VARIABLES par, pert,          \* object / probe family parameters, optional quarter-turn perturbation of one pixel
          n, m, s, stage,     \* position, mode, slice being processed; stage of the pipeline
          wave,               \* current array (function on ROI -> Gaussian integer)
          acc,                \* pattern accumulator of the current position (corner-centred integer numerators)
          pats                \* finished patterns
vars == <<par, pert, n, m, s, stage, wave, acc, pats>>

\* Gaussian integers <<re, im>>
ZAdd(x, y) == <<x[1] + y[1], x[2] + y[2]>>
ZMul(x, y) == <<(x[1] * y[1]) - (x[2] * y[2]), (x[1] * y[2]) + (x[2] * y[1])>>
ZNorm2(x) == (x[1] * x[1]) + (x[2] * x[2])
IPow(q) == CASE q % 4 = 0 -> <<1, 0>> [] q % 4 = 1 -> <<0, 1>> [] q % 4 = 2 -> <<-1, 0>> [] OTHER -> <<0, -1>>   \* i^q
NegIPow(q) == IPow(3 * q)                                                                                         \* (-i)^q

FFreq(i, k) == IF 2 * i < k + (k % 2) THEN i ELSE i - k
ROI == (0..(RY - 1)) \X (0..(RX - 1))
Zero == [x \in ROI |-> 0]

\* object phases in quarter turns, per slice; one pixel may be perturbed by a quarter turn
Q(sl, r, c) == (((par.a * r) + (par.b * c) + (par.d * r * c) + (sl * (r + (2 * c)))) % 4)
               + (IF pert.on /\ sl = pert.s /\ r = pert.r /\ c = pert.c THEN 1 ELSE 0)
\* probe modes: small Gaussian integers; mode 1 lives on two pixels where mode 0 vanishes
Probe0(md, i, j) ==
  IF md = 0 THEN (IF (i = RY - 1 /\ j = 0) \/ (i = 0 /\ j = RX - 1) THEN <<0, 0>>
                  ELSE IF (i + j) % 2 = 0 THEN <<2 + par.p, (i * j) % 2>> ELSE <<0, 1 + ((par.p + j) % 2)>>)
  ELSE (IF i = (RY - 1) /\ j = 0 THEN <<1, 1>> ELSE IF i = 0 /\ j = RX - 1 THEN <<1, -1>> ELSE <<0, 0>>)
\* optional perturbation of the probe: pixel (0, 0) of mode 0 turned by a quarter turn
Probe(md, i, j) == IF pert.probe /\ md = 0 /\ i = 0 /\ j = 0 THEN ZMul(Probe0(md, i, j), <<0, 1>>) ELSE Probe0(md, i, j)
\* integer part (round half to even, as torch.round) and remaining half-pixel fraction (-1, 0, 1) of a doubled position
RoundHalfEven(num, den) ==
  LET fl == num \div den  r2 == 2 * (num % den) IN
  IF r2 < den THEN fl ELSE IF r2 > den THEN fl + 1 ELSE IF fl % 2 = 0 THEN fl ELSE fl + 1
PosI(pn) == <<RoundHalfEven(Pos[pn][1], 2), RoundHalfEven(Pos[pn][2], 2)>>
Frac2(pn) == <<Pos[pn][1] - (2 * PosI(pn)[1]), Pos[pn][2] - (2 * PosI(pn)[2])>>
Patch(pn, sl, i, j) == Q(sl, (PosI(pn)[1] + FFreq(i, RY)) % NY, (PosI(pn)[2] + FFreq(j, RX)) % NX)
\* sub-pixel placement of the probe (Fourier shift by +frac): on a 2-point axis the ramp exp(-2 pi i k s),
\* k = a/2 (a = 0, -1), s = f/2 (f = -1, 0, 1) is (-i)^(a f) - exact; the Nyquist term is NOT symmetrised
ShiftPhase(pn, k) == NegIPow((FFreq(k[1], RY) * Frac2(pn)[1]) + (FFreq(k[2], RX) * Frac2(pn)[2]))
ASSUME Half => (RY = 2 /\ RX = 2)
ASSUME ~Half => \A pn \in DOMAIN Pos : Pos[pn][1] % 2 = 0 /\ Pos[pn][2] % 2 = 0

\* 2-D DFT of a ROI-sized array f; twiddle (-i)^(4 u x / R)
DFT(f, u, v) ==
  LET ex(uu, x, k) == IF TwiddleBug THEN uu * x ELSE (4 \div k) * uu * x
      F[t \in 0..(RY * RX)] ==
        IF t = 0 THEN <<0, 0>>
        ELSE ZAdd(F[t - 1], ZMul(f[<<(t - 1) \div RX, (t - 1) % RX>>], NegIPow(ex(u, (t - 1) \div RX, RY) + ex(v, (t - 1) % RX, RX))))
  IN F[RY * RX]
\* inverse DFT times RY*RX (kept integral)
IDFTn(g, x, y) ==
  LET F[t \in 0..(RY * RX)] ==
        IF t = 0 THEN <<0, 0>>
        ELSE ZAdd(F[t - 1], ZMul(g[<<(t - 1) \div RX, (t - 1) % RX>>], IPow(((4 \div RY) * ((t - 1) \div RX) * x) + ((4 \div RX) * ((t - 1) % RX) * y))))
  IN F[RY * RX]
PropPhase(k) == NegIPow((PropR * FFreq(k[1], RY) * FFreq(k[1], RY)) + (PropC * FFreq(k[2], RX) * FFreq(k[2], RX)))

Params == [a : {0, 1, 3}, b : {1, 2}, d : {0, 1}, p : {0, 1}]
NoPert == [on |-> FALSE, probe |-> FALSE, s |-> 0, r |-> 0, c |-> 0]
\* perturbations: a quarter turn on one illuminated object pixel
Perts == {NoPert, [NoPert EXCEPT !.probe = TRUE]} \cup {[on |-> TRUE, probe |-> FALSE, s |-> sl, r |-> (PosI(pn)[1] + FFreq(x[1], RY)) % NY, c |-> (PosI(pn)[2] + FFreq(x[2], RX)) % NX]
                          : sl \in {NS - 1}, pn \in {1, Len(Pos)}, x \in {<<0, 0>>, <<1, 0>>}}

Init == /\ par \in Params /\ pert \in Perts
        /\ n = 1 /\ m = 0 /\ s = 0 /\ stage = "start" /\ wave = [x \in ROI |-> <<0, 0>>] /\ acc = Zero /\ pats = <<>>

Start ==      /\ stage = "start"
              /\ wave' = [x \in ROI |-> Probe(m, x[1], x[2])] /\ stage' = IF Half THEN "rawprobe" ELSE "probe"
              /\ UNCHANGED <<par, pert, n, m, s, acc, pats>>
\* sub-pixel probe placement (only when Half): DFT, phase ramp, inverse DFT (scaled by RY*RX)
ShiftSpec ==  /\ stage = "rawprobe"
              /\ wave' = [k \in ROI |-> DFT(wave, k[1], k[2])] /\ stage' = "probespec"
              /\ UNCHANGED <<par, pert, n, m, s, acc, pats>>
ShiftRamp ==  /\ stage = "probespec"
              /\ wave' = [k \in ROI |-> ZMul(wave[k], ShiftPhase(n, k))] /\ stage' = "proberamp"
              /\ UNCHANGED <<par, pert, n, m, s, acc, pats>>
ShiftBack ==  /\ stage = "proberamp"
              /\ wave' = [x \in ROI |-> IDFTn(wave, x[1], x[2])] /\ stage' = "probe"
              /\ UNCHANGED <<par, pert, n, m, s, acc, pats>>
Transmit ==   /\ stage \in {"probe", "propagated"}
              /\ wave' = [x \in ROI |-> ZMul(wave[x], IPow(Patch(n, s, x[1], x[2])))] /\ stage' = "transmitted"
              /\ UNCHANGED <<par, pert, n, m, s, acc, pats>>
ToSpectrum == /\ stage = "transmitted" /\ s < NS - 1
              /\ wave' = [k \in ROI |-> DFT(wave, k[1], k[2])] /\ stage' = "spectrum"
              /\ UNCHANGED <<par, pert, n, m, s, acc, pats>>
Propagate ==  /\ stage = "spectrum"
              /\ wave' = [k \in ROI |-> ZMul(wave[k], PropPhase(k))] /\ stage' = "kernel"
              /\ UNCHANGED <<par, pert, n, m, s, acc, pats>>
Back ==       /\ stage = "kernel"
              /\ wave' = [x \in ROI |-> IDFTn(wave, x[1], x[2])] /\ stage' = "propagated" /\ s' = s + 1
              /\ UNCHANGED <<par, pert, n, m, acc, pats>>
\* far field of the exit wave of the last slice, added incoherently to the pattern of position n
Detect ==     /\ stage = "transmitted" /\ s = NS - 1
              /\ LET newacc == [k \in ROI |-> acc[k] + ZNorm2(DFT(wave, k[1], k[2]))] IN
                   IF m < NM - 1
                   THEN acc' = newacc /\ m' = m + 1 /\ n' = n /\ pats' = pats /\ stage' = "start"
                   ELSE /\ pats' = Append(pats, newacc) /\ acc' = Zero /\ m' = 0
                        /\ IF n < Len(Pos) THEN n' = n + 1 /\ stage' = "start" ELSE n' = n /\ stage' = "done"
              /\ s' = 0 /\ UNCHANGED <<par, pert, wave>>
Next == Start \/ ShiftSpec \/ ShiftRamp \/ ShiftBack \/ Transmit \/ ToSpectrum \/ Propagate \/ Back \/ Detect
Spec == Init /\ [][Next]_vars

---------------------------------------------------------------------------
\* integer numerators: I[u, v] = pats[n][u, v] / Scale,  Scale = (RY*RX)^(2*(NS-1)+1)
ScaleExp == (2 * (NS - 1)) + 1 + (IF Half THEN 2 ELSE 0)       \* the placed probe is scaled by RY*RX when Half
Scale == LET P[k \in 0..ScaleExp] == IF k = 0 THEN 1 ELSE P[k - 1] * (RY * RX) IN P[ScaleExp]
ProbeNorm(md) == LET F[t \in 0..(RY * RX)] == IF t = 0 THEN 0 ELSE F[t - 1] + ZNorm2(Probe(md, (t - 1) \div RX, (t - 1) % RX)) IN F[RY * RX]
TotalProbe == LET F[md \in 0..NM] == IF md = 0 THEN 0 ELSE F[md - 1] + ProbeNorm(md - 1) IN F[NM]
SumOf(f) == LET F[t \in 0..(RY * RX)] == IF t = 0 THEN 0 ELSE F[t - 1] + f[<<(t - 1) \div RX, (t - 1) % RX>>] IN F[RY * RX]
\* Parseval + unit-amplitude object + unitary propagation: every pattern carries the probe's intensity
IntensityConserved == \A i \in DOMAIN pats : SumOf(pats[i]) = Scale * TotalProbe
\* the energy of the wave is conserved by every step (up to the known integer scale of DFT / IDFTn)
WaveEnergy == LET e == SumOf([x \in ROI |-> ZNorm2(wave[x])])
                  k == (IF stage \in {"spectrum", "kernel"} THEN (2 * s) + 1 ELSE 2 * s)
                       + (IF Half /\ stage \notin {"rawprobe", "probespec", "proberamp"} THEN 2 ELSE IF stage \in {"probespec", "proberamp"} THEN 1 ELSE 0)
                  P[j \in 0..k] == IF j = 0 THEN 1 ELSE P[j - 1] * (RY * RX)
              IN stage \in {"rawprobe", "probespec", "proberamp", "probe", "transmitted", "spectrum", "kernel", "propagated"} => e = P[k] * ProbeNorm(m)
Orthogonal == NM = 2 =>
   LET F[t \in 0..(RY * RX)] == IF t = 0 THEN <<0, 0>>
            ELSE LET i == (t - 1) \div RX  j == (t - 1) % RX IN
                 ZAdd(F[t - 1], ZMul(<<Probe(0, i, j)[1], -Probe(0, i, j)[2]>>, Probe(1, i, j)))
   IN F[RY * RX] = <<0, 0>> /\ ProbeNorm(1) < ProbeNorm(0)

Emit == stage = "done" =>
   PrintT(<<"CASE", ToJson([ry |-> RY, rx |-> RX, ny |-> NY, nx |-> NX, ns |-> NS, nm |-> NM, scale |-> Scale,
                            pert |-> pert, par |-> par,
                            q |-> [sl \in 1..NS |-> [r \in 1..NY |-> [c \in 1..NX |-> Q(sl - 1, r - 1, c - 1)]]],
                            probe |-> [md \in 1..NM |-> [i \in 1..RY |-> [j \in 1..RX |-> Probe(md - 1, i - 1, j - 1)]]],
                            inten |-> [i \in DOMAIN pats |-> [u \in 1..RY |-> [v \in 1..RX |->
                                         pats[i][<<((u - 1) + (RY - (RY \div 2))) % RY, ((v - 1) + (RX - (RX \div 2))) % RX>>]]]]])>>)
=============================================================================
