----------------------------- MODULE FwdModelZi -----------------------------
(***************************************************************************)
(* An independent reference implementation of the multislice, mixed-state  *)
(* ptychographic forward model over the GAUSSIAN INTEGERS (property C02).  *)
(*                                                                         *)
(* Detector ROI of RY x RX pixels with RY, RX in {2, 4}: the DFT matrices  *)
(* have entries in {1, -i, -1, i}.  Objects are pure phase in quarter      *)
(* turns (transmission i^q), probe modes have small Gaussian-integer       *)
(* entries, scan positions are integers on a periodic NY x NX object grid, *)
(* and slices are a quarter-wave apart (the Fresnel phase on the ROI grid  *)
(* is a multiple of pi/2:  (-i)^(a^2 + b^2), a, b signed frequency         *)
(* indices scaled per axis).  Everything is exact integer arithmetic.      *)
(*                                                                         *)
(* Conventions being specified (they are what the library must agree       *)
(* with): corner-centred probe and patch offsets in fftfreq order with     *)
(* wrap-around on the object; transmit, then propagate between slices      *)
(* (not after the last); far field = |DFT|^2 / (RY*RX) summed incoherently *)
(* over modes; detector patterns are fftshift-ed.                          *)
(***************************************************************************)
EXTENDS Integers, Sequences, FiniteSets, TLC, Json

CONSTANTS RY, RX, NY, NX, NS, NM, Pos,   \* ROI, object grid, slices, modes, scan positions <<r, c>>
          PropR, PropC,                   \* Fresnel exponent per axis: phase = (-i)^(PropR*a^2 + PropC*b^2)
          TwiddleBug                      \* negative control: wrong twiddle exponent

VARIABLES par, pert, tab        \* tab: all patterns (integer numerators, corner-centred) of the current object
vars == <<par, pert, tab>>

\* Gaussian integers <<re, im>>
ZAdd(x, y) == <<x[1] + y[1], x[2] + y[2]>>
ZMul(x, y) == <<(x[1] * y[1]) - (x[2] * y[2]), (x[1] * y[2]) + (x[2] * y[1])>>
ZNorm2(x) == (x[1] * x[1]) + (x[2] * x[2])
IPow(q) == CASE q % 4 = 0 -> <<1, 0>> [] q % 4 = 1 -> <<0, 1>> [] q % 4 = 2 -> <<-1, 0>> [] OTHER -> <<0, -1>>   \* i^q
NegIPow(q) == IPow(3 * q)                                                                                         \* (-i)^q

FFreq(i, n) == IF 2 * i < n + (n % 2) THEN i ELSE i - n
ROI == (0..(RY - 1)) \X (0..(RX - 1))

\* object phases in quarter turns, per slice; one pixel may be perturbed by a quarter turn
Q(s, r, c) == (((par.a * r) + (par.b * c) + (par.d * r * c) + (s * (r + (2 * c)))) % 4)
              + (IF pert.on /\ s = pert.s /\ r = pert.r /\ c = pert.c THEN 1 ELSE 0)
\* probe modes: small Gaussian integers on disjoint supports (orthogonal, descending intensity)
Probe(m, i, j) ==
  IF m = 0 THEN (IF (i = RY - 1 /\ j = 0) \/ (i = 0 /\ j = RX - 1) THEN <<0, 0>>      \* support of mode 1
                 ELSE IF (i + j) % 2 = 0 THEN <<2 + par.p, (i * j) % 2>> ELSE <<0, 1 + ((par.p + j) % 2)>>)
  ELSE (IF i = (RY - 1) /\ j = 0 THEN <<1, 1>> ELSE IF i = 0 /\ j = RX - 1 THEN <<1, -1>> ELSE <<0, 0>>)
\* mode 1 must be orthogonal to mode 0: its support pixels carry values chosen below (checked by Orthogonal)

Patch(n, s, i, j) == Q(s, (Pos[n][1] + FFreq(i, RY)) % NY, (Pos[n][2] + FFreq(j, RX)) % NX)

\* 2-D DFT of a ROI-sized Gaussian-integer array f (function on ROI); twiddle (-i)^(4 u x / R)
DFT(f, u, v) ==
  LET ex(uu, x, n) == IF TwiddleBug THEN uu * x ELSE (4 \div n) * uu * x
      F[t \in 0..(RY * RX)] ==
        IF t = 0 THEN <<0, 0>>
        ELSE LET x == (t - 1) \div RX  y == (t - 1) % RX IN
             ZAdd(F[t - 1], ZMul(f[<<x, y>>], NegIPow(ex(u, x, RY) + ex(v, y, RX))))
  IN F[RY * RX]
\* inverse DFT times RY*RX (kept integral)
IDFTn(g, x, y) ==
  LET F[t \in 0..(RY * RX)] ==
        IF t = 0 THEN <<0, 0>>
        ELSE LET u == (t - 1) \div RX  v == (t - 1) % RX IN
             ZAdd(F[t - 1], ZMul(g[<<u, v>>], IPow(((4 \div RY) * u * x) + ((4 \div RX) * v * y))))
  IN F[RY * RX]

\* whole-array transforms (materialised as functions so that nothing is re-evaluated)
DFTTab(f) == [k \in ROI |-> DFT(f, k[1], k[2])]
IDFTnTab(g) == [x \in ROI |-> IDFTn(g, x[1], x[2])]
PropPhase(k) == NegIPow((PropR * FFreq(k[1], RY) * FFreq(k[1], RY)) + (PropC * FFreq(k[2], RX) * FFreq(k[2], RX)))

\* exit wave of mode m at position n, scaled by (RY*RX)^(NS-1) so that everything stays integral
RECURSIVE Wave(_, _, _)
Wave(n, m, s) ==      \* wave entering slice s (function on ROI)
  IF s = 0 THEN [x \in ROI |-> Probe(m, x[1], x[2])]
  ELSE LET prev == Wave(n, m, s - 1)
           trans == [x \in ROI |-> ZMul(prev[x], IPow(Patch(n, s - 1, x[1], x[2])))]
           spec0 == DFTTab(trans)
           spec == [k \in ROI |-> ZMul(spec0[k], PropPhase(k))]
       IN IDFTnTab(spec)
Exit(n, m) == LET w == Wave(n, m, NS - 1) IN [x \in ROI |-> ZMul(w[x], IPow(Patch(n, NS - 1, x[1], x[2])))]
\* integer numerator of the pattern: I[u, v] = Inten / ((RY*RX) * (RY*RX)^(2*(NS-1)))
PatternTab(n) ==
  LET spectra == [m \in 0..(NM - 1) |-> DFTTab(Exit(n, m))]
  IN [k \in ROI |-> LET F[m \in 0..NM] == IF m = 0 THEN 0 ELSE F[m - 1] + ZNorm2(spectra[m - 1][k]) IN F[NM]]
AllPatterns == [n \in DOMAIN Pos |-> PatternTab(n)]
Scale == LET P[k \in 0..(2 * (NS - 1) + 1)] == IF k = 0 THEN 1 ELSE P[k - 1] * (RY * RX) IN P[2 * (NS - 1) + 1]

Params == [a : {0, 1, 3}, b : {1, 2}, d : {0, 1}, p : {0, 1}]
Init == /\ par \in Params /\ pert = [on |-> FALSE, s |-> 0, r |-> 0, c |-> 0] /\ tab = AllPatterns
\* perturb one illuminated object pixel by a quarter turn
Perturb == /\ ~pert.on
           /\ \E s \in 0..(NS - 1), n \in DOMAIN Pos, x \in {<<0, 0>>, <<1, 0>>, <<0, 1>>} :
                pert' = [on |-> TRUE, s |-> s, r |-> (Pos[n][1] + FFreq(x[1], RY)) % NY, c |-> (Pos[n][2] + FFreq(x[2], RX)) % NX]
           /\ UNCHANGED par /\ tab' = AllPatterns'
Next == Perturb
Spec == Init /\ [][Next]_vars

---------------------------------------------------------------------------
\* self-checks of the transcription
ProbeNorm(m) == LET F[t \in 0..(RY * RX)] == IF t = 0 THEN 0 ELSE F[t - 1] + ZNorm2(Probe(m, (t - 1) \div RX, (t - 1) % RX)) IN F[RY * RX]
TotalProbe == LET F[m \in 0..NM] == IF m = 0 THEN 0 ELSE F[m - 1] + ProbeNorm(m - 1) IN F[NM]
PatternSum(n) == LET F[t \in 0..(RY * RX)] == IF t = 0 THEN 0 ELSE F[t - 1] + tab[n][<<(t - 1) \div RX, (t - 1) % RX>>] IN F[RY * RX]
\* Parseval + unit-amplitude object + unitary propagation: every pattern carries the probe's intensity
IntensityConserved == \A n \in DOMAIN Pos : PatternSum(n) = Scale * TotalProbe
Orthogonal == NM = 2 =>
   LET F[t \in 0..(RY * RX)] == IF t = 0 THEN <<0, 0>>
            ELSE LET i == (t - 1) \div RX  j == (t - 1) % RX IN
                 ZAdd(F[t - 1], ZMul(<<Probe(0, i, j)[1], -Probe(0, i, j)[2]>>, Probe(1, i, j)))
   IN F[RY * RX] = <<0, 0>> /\ ProbeNorm(1) < ProbeNorm(0)

Emit == PrintT(<<"CASE", ToJson([ry |-> RY, rx |-> RX, ny |-> NY, nx |-> NX, ns |-> NS, nm |-> NM, scale |-> Scale,
                                 pert |-> pert,
                                 q |-> [s \in 1..NS |-> [r \in 1..NY |-> [c \in 1..NX |-> Q(s - 1, r - 1, c - 1)]]],
                                 probe |-> [m \in 1..NM |-> [i \in 1..RY |-> [j \in 1..RX |-> Probe(m - 1, i - 1, j - 1)]]],
                                 inten |-> [n \in DOMAIN Pos |-> [u \in 1..RY |-> [v \in 1..RX |->
                                            tab[n][<<((u - 1) + (RY - (RY \div 2))) % RY, ((v - 1) + (RX - (RX \div 2))) % RX>>]]]]])>>)
=============================================================================
