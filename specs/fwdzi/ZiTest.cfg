SPECIFICATION Spec
CONSTANTS RY = 4
          RX = 4
          NY = 8
          NX = 8
          NS = 2
          NM = 2
          Pos <- PosDef
          PropR = 1
          PropC = 1
          TwiddleBug = FALSE
INVARIANT IntensityConserved
INVARIANT Orthogonal
INVARIANT WaveEnergy
