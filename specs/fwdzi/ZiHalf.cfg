SPECIFICATION Spec
CONSTANTS RY = 2
          RX = 2
          NY = 8
          NX = 8
          NS = 2
          NM = 2
          Pos <- PosHalf
          Half = TRUE
          PropR = 1
          PropC = 1
          TwiddleBug = FALSE
INVARIANT IntensityConserved
INVARIANT Orthogonal
INVARIANT WaveEnergy
