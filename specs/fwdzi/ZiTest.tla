---- MODULE ZiTest ----
EXTENDS FwdModelZi
PosDef == <<<<6, 6>>, <<6, 10>>, <<14, 2>>>>
PosHalf == <<<<6, 7>>, <<13, 10>>, <<5, 2>>, <<16, 3>>>>
====
