---- MODULE ZiTest ----
EXTENDS FwdModelZi
PosDef == <<<<3, 3>>, <<3, 5>>, <<7, 1>>>>
====
