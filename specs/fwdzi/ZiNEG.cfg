SPECIFICATION Spec
CONSTANTS RY = 2
          RX = 2
          NY = 8
          NX = 8
          NS = 2
          NM = 1
          Pos <- PosDef
          Half = FALSE
          PropR = 1
          PropC = 1
          TwiddleBug = TRUE
INVARIANT IntensityConserved
INVARIANT WaveEnergy
