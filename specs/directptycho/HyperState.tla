----------------------------- MODULE HyperState -----------------------------
(***************************************************************************)
(* The hyper-parameter state of a direct-ptychography reconstruction       *)
(* (property C04: the result is a function of the stack, the mask and the  *)
(* hyper-parameters ONLY).                                                 *)
(*                                                                         *)
(* Aberration coefficients live in three layers: the values given at       *)
(* construction (initial), the values found by an optimisation             *)
(* (optimized) and the values passed to one call (override).  The          *)
(* effective value of a coefficient is the top-most layer that mentions    *)
(* it, 0 if none does; an explicit 0 is a value like any other.  The       *)
(* rotation angle has the same three layers.  A call never changes the     *)
(* initial or the optimized layer.                                         *)
(*                                                                         *)
(* Values are tokens: 0 = explicit zero, 1, 2 = two non-zero magnitudes    *)
(* (the replay maps them to Angstrom / radians / degrees).                 *)
(***************************************************************************)
EXTENDS Integers, FiniteSets, TLC, Json

CONSTANTS Keys,        \* aberration names, e.g. {"C10", "C12"}
          DropFalsy,   \* negative control: layers drop entries whose value is 0 ("if not value: continue")
          Record

Vals == {0, 1, 2}
Layers == UNION {[S -> Vals] : S \in SUBSET Keys}
RotLayers == {-1, 0, 1}            \* -1 = not given, 0 = explicit zero, 1 = a non-zero angle

VARIABLES initial, optimized, rot0, phase, last
vars == <<initial, optimized, rot0, phase, last>>

Clean(layer) == IF DropFalsy THEN [k \in {x \in DOMAIN layer : layer[x] # 0} |-> layer[k]] ELSE layer
Over(a, b) == [k \in DOMAIN a \cup DOMAIN b |-> IF k \in DOMAIN b THEN b[k] ELSE a[k]]
Effective(ini, opt, ovr) ==
  LET m == Over(Over(ini, opt), Clean(ovr)) IN [k \in Keys |-> IF k \in DOMAIN m THEN m[k] ELSE 0]
EffRot(r0, rovr) == IF rovr # -1 THEN rovr ELSE IF r0 # -1 THEN r0 ELSE 0

Init == /\ initial \in Layers /\ optimized = [k \in {} |-> 0] /\ rot0 \in RotLayers
        /\ phase = "built" /\ last = [ovr |-> [k \in {} |-> 0], rovr |-> -1, eff |-> [k \in Keys |-> 0], effrot |-> 0]

\* reconstruct(override_aberration_coefs=ovr, override_rotation_angle=rovr)
Reconstruct == \E ovr \in Layers, rovr \in RotLayers :
   /\ phase \in {"built", "called"}
   /\ last' = [ovr |-> ovr, rovr |-> rovr, eff |-> Effective(initial, optimized, ovr), effrot |-> EffRot(rot0, rovr)]
   /\ phase' = IF phase = "built" THEN "called" ELSE "twice"
   /\ UNCHANGED <<initial, optimized, rot0>>
Next == Reconstruct
Spec == Init /\ [][Next]_vars

\* the override wins wherever it speaks - also when it says 0
OverrideWins == phase # "built" => \A k \in DOMAIN last.ovr : last.eff[k] = last.ovr[k]
\* elsewhere the construction values hold, 0 where nothing was given
RestFromBelow == phase # "built" => \A k \in Keys \ DOMAIN last.ovr :
                    last.eff[k] = (IF k \in DOMAIN initial THEN initial[k] ELSE 0)
RotationLayers == phase # "built" => last.effrot = EffRot(rot0, last.rovr)
\* a call leaves the stored layers alone (so the next call without override sees the construction values again)
CallsArePure == [][initial' = initial /\ optimized' = optimized /\ rot0' = rot0]_vars

Emit == (Record /\ phase = "twice") =>
   PrintT(<<"CASE", ToJson([initial |-> initial, rot0 |-> rot0, ovr |-> last.ovr, rovr |-> last.rovr,
                            eff |-> last.eff, effrot |-> last.effrot])>>)
=============================================================================
