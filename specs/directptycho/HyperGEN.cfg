SPECIFICATION Spec
CONSTANTS Keys = {"C10", "C12"}
          DropFalsy = FALSE
          Record = TRUE
INVARIANT OverrideWins
INVARIANT RestFromBelow
INVARIANT RotationLayers
INVARIANT Emit
