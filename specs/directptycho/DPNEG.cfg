SPECIFICATION Spec
CONSTANTS NBF = 5
          SX = 3
          SY = 4
          Gen = FALSE
          NormBug = TRUE
INVARIANT FunctionOfInputs
INVARIANT EachPixelOnce
INVARIANT Recombine
