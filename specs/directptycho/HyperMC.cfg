SPECIFICATION Spec
CONSTANTS Keys = {"C10", "C12"}
          DropFalsy = FALSE
          Record = FALSE
INVARIANT OverrideWins
INVARIANT RestFromBelow
INVARIANT RotationLayers
PROPERTY CallsArePure
