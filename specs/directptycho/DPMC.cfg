SPECIFICATION Spec
CONSTANTS NBF = 5
          SX = 3
          SY = 4
          Gen = FALSE
          NormBug = FALSE
INVARIANT FunctionOfInputs
INVARIANT EachPixelOnce
INVARIANT Recombine
