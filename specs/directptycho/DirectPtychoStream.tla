-------------------------- MODULE DirectPtychoStream --------------------------
(***************************************************************************)
(* Streaming of bright-field pixels in direct ptychography (property C04). *)
(*                                                                         *)
(* A reconstruction processes the bright-field pixels of a mask M (a       *)
(* subset of the construction mask 1..NBF) in consecutive batches of size  *)
(* bs.  Single-pass kernels (ssb, prlx, icom) finish each pixel in its     *)
(* batch.  Two-pass kernels (obf, mf) first accumulate a normaliser        *)
(* ("power") over ALL pixels of M, and only then normalise (second pass).  *)
(* The result is kept symbolically: for every pixel which raw pixel it was *)
(* computed from and which pixel set its normaliser was built from.        *)
(* FunctionOfInputs: the finished result does not depend on bs.            *)
(* Recombine (single pass): results over complementary sub-masks are the   *)
(* per-pixel results of the full mask (aperture weights are a per-pixel    *)
(* sum, W(M) = W(M1) + W(M2)).                                             *)
(* Exact parallax oracle: with integer per-pixel geometric shifts the      *)
(* corrected image of pixel p is the circular roll of its mean-subtracted  *)
(* virtual image; TLC computes the rolled integer images.                  *)
(***************************************************************************)
EXTENDS Integers, Sequences, FiniteSets, TLC, Json

CONSTANTS NBF, SX, SY,        \* bright-field pixels, scan shape
          NormBug,             \* negative control: normaliser built per batch
          Gen                  \* TRUE: only the full-mask parallax runs (export of the exact oracle)

VARIABLES M, kernel, bs, phase, done1, done2, powerFrom, res, par
vars == <<M, kernel, bs, phase, done1, done2, powerFrom, res, par>>

TwoPass == {"obf", "mf"}
Kernels == {"ssb", "prlx", "icom", "obf", "mf"}
MSeq == LET S == M IN LET F[i \in 0..NBF] == IF i = 0 THEN <<>> ELSE IF i \in S THEN Append(F[i - 1], i) ELSE F[i - 1] IN F[NBF]
NextBatch(doneSet) ==      \* the next bs pixels of M in index order
  LET rest == SelectSeq(MSeq, LAMBDA p : p \notin doneSet)
      n == IF Len(rest) < bs THEN Len(rest) ELSE bs
  IN {rest[i] : i \in 1..n}

Init == /\ M \in (IF Gen THEN {1..NBF} ELSE (SUBSET (1..NBF)) \ {{}})
        /\ kernel \in (IF Gen THEN {"prlx"} ELSE Kernels) /\ bs \in (IF Gen THEN {NBF} ELSE 1..NBF)
        /\ phase = "pass1" /\ done1 = {} /\ done2 = {} /\ powerFrom = {}
        /\ res = [p \in {} |-> 0] /\ par \in [a : {0, 1, 2}, b : {1, 2}, m : {-1, 1, 2}]

Pass1 ==
  /\ phase = "pass1" /\ done1 # M
  /\ LET B == NextBatch(done1) IN
       /\ done1' = done1 \cup B
       /\ powerFrom' = IF kernel \in TwoPass THEN powerFrom \cup B ELSE powerFrom
       /\ res' = IF kernel \in TwoPass THEN res
                 ELSE [p \in DOMAIN res \cup B |-> IF p \in B THEN [raw |-> p, normFrom |-> {}] ELSE res[p]]
       /\ phase' = IF done1 \cup B = M THEN (IF kernel \in TwoPass THEN "norm" ELSE "done") ELSE "pass1"
  /\ UNCHANGED <<M, kernel, bs, done2, par>>
ComputeNorm ==
  /\ phase = "norm" /\ done1 = M
  /\ phase' = "pass2" /\ UNCHANGED <<M, kernel, bs, done1, done2, powerFrom, res, par>>
Pass2 ==
  /\ phase = "pass2" /\ done2 # M
  /\ LET B == NextBatch(done2) IN
       /\ done2' = done2 \cup B
       /\ res' = [p \in DOMAIN res \cup B |->
                    IF p \in B THEN [raw |-> p, normFrom |-> IF NormBug THEN B ELSE powerFrom] ELSE res[p]]
       /\ phase' = IF done2 \cup B = M THEN "done" ELSE "pass2"
  /\ UNCHANGED <<M, kernel, bs, done1, powerFrom, par>>
Next == Pass1 \/ ComputeNorm \/ Pass2
Spec == Init /\ [][Next]_vars

\* the result as a function of (M, kernel) only
Expected == [p \in M |-> [raw |-> p, normFrom |-> IF kernel \in TwoPass THEN M ELSE {}]]
FunctionOfInputs == phase = "done" => res = Expected
EachPixelOnce == done1 \subseteq M /\ done2 \subseteq M /\ (phase = "done" => done1 = M)
\* single-pass kernels: every 2-block partition of M recombines to the full-mask result
Recombine ==
  (phase = "done" /\ kernel \notin TwoPass) =>
     \A M1 \in SUBSET M : \A p \in M : res[p] = [raw |-> p, normFrom |-> {}]

---------------------------------------------------------------------------
(* exact parallax oracle on integer virtual images *)
Vimg(p, x, y) == ((par.a * x) + (par.b * y) + (p * x * y) + p) % 7
\* detector index of BF pixel p on a 3-wide corner-centred patch: p = 1..9 -> (ni, nj) in -1..1
Ni(p) == ((p - 1) \div 3) - 1
Nj(p) == ((p - 1) % 3) - 1
\* rolled image (times SX*SY to stay integral):  roll(v - mean(v), (m*ni, m*nj))
Tot(p) == LET F[i \in 0..(SX * SY)] == IF i = 0 THEN 0 ELSE F[i - 1] + Vimg(p, (i - 1) \div SY, (i - 1) % SY) IN F[SX * SY]
Rolled(p, x, y) == (SX * SY * Vimg(p, (x - (par.m * Ni(p))) % SX, (y - (par.m * Nj(p))) % SY)) - Tot(p)
RollZeroMean == \A p \in 1..NBF :
   LET F[i \in 0..(SX * SY)] == IF i = 0 THEN 0 ELSE F[i - 1] + Rolled(p, (i - 1) \div SY, (i - 1) % SY) IN F[SX * SY] = 0

Emit == (phase = "done" /\ bs = NBF /\ kernel = "prlx" /\ M = 1..NBF) =>
   PrintT(<<"CASE", ToJson([nbf |-> NBF, sx |-> SX, sy |-> SY, m |-> par.m,
                            vbf |-> [p \in 1..NBF |-> [x \in 1..SX |-> [y \in 1..SY |-> Vimg(p, x - 1, y - 1)]]],
                            rolled |-> [p \in 1..NBF |-> [x \in 1..SX |-> [y \in 1..SY |-> Rolled(p, x - 1, y - 1)]]],
                            ni |-> [p \in 1..NBF |-> Ni(p)], nj |-> [p \in 1..NBF |-> Nj(p)]])>>)
=============================================================================
