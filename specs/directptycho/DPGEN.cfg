SPECIFICATION Spec
CONSTANTS NBF = 9
          SX = 7
          SY = 8
          Gen = TRUE
          NormBug = FALSE
INVARIANT Emit
INVARIANT RollZeroMean
