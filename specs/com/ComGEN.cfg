SPECIFICATION Spec
CONSTANTS SR = 2
          SC = 3
          DR = 3
          DC = 4
          BatchBug = FALSE
          ShiftBug = FALSE
INVARIANT Emit
