SPECIFICATION Spec
CONSTANTS SR = 2
          SC = 3
          DR = 3
          DC = 4
          BatchBug = FALSE
          ShiftBug = FALSE
INVARIANT ScheduleIndependent
INVARIANT ShiftScheduleIndependent
INVARIANT InsideDetector
INVARIANT ScaleFree
INVARIANT RollConserves
PROPERTY TableStable
