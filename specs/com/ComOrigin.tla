------------------------------ MODULE ComOrigin ------------------------------
(***************************************************************************)
(* Centre-of-mass origin estimation (property C18), exact arithmetic.      *)
(*                                                                         *)
(* A 4-D dataset of positive integer intensities I[sr, sc, r, c] (scan     *)
(* position, detector pixel).  The centre of mass of a pattern is the pair *)
(* of exact rationals  (SUM r*I / SUM I, SUM c*I / SUM I)  - row first.    *)
(* The estimate is computed batch by batch; the model processes the        *)
(* patterns in consecutive batches of any size and the completed table     *)
(* must be the per-pattern centre of mass whatever the batch size          *)
(* (ScheduleIndependent).  Origins lying exactly on an integer plane /     *)
(* constant are what a plane / constant fit must return, and moving an     *)
(* integer origin to the detector corner is a circular roll.               *)
(***************************************************************************)
EXTENDS Integers, Sequences, FiniteSets, TLC, Json

CONSTANTS SR, SC, DR, DC,      \* scan rows/cols, detector rows/cols
          BatchBug,            \* negative control: normalise by the batch total instead of per pattern
          ShiftBug             \* negative control: a batch's origins fetched at  batch number * CURRENT batch length

Scan == (0..(SR - 1)) \X (0..(SC - 1))
NP == SR * SC
PatIdx(p) == (p[1] * SC) + p[2]                      \* row-major pattern number
PatOf(k) == <<k \div SC, k % SC>>

VARIABLES par,        \* parameters of the intensity family
          table,      \* pattern number -> <<<<numR, den>>, <<numC, den>>>>  (filled batch by batch)
          ndone, bs,
          oidx        \* pattern number -> index of the fitted origin it is shifted by (filled batch by batch)
vars == <<par, table, ndone, bs, oidx>>

\* a family of positive integer patterns (mixes row, column and scan dependence)
Inten(p, r, c) == 1 + (((par.a * r) + (par.b * c) + (par.d * p[1]) + (par.e * p[2]) + (par.f * r * c)) % 5)
                  + (IF r = (par.g + p[1]) % DR /\ c = (par.h + p[2]) % DC THEN 7 ELSE 0)

Wt(w, r, c) == IF w = "one" THEN 1 ELSE IF w = "row" THEN r ELSE c
RECURSIVE SumOver(_, _, _)
SumOver(S, p, w) == IF S = {} THEN 0
                    ELSE LET x == CHOOSE y \in S : TRUE IN (Wt(w, x[1], x[2]) * Inten(p, x[1], x[2])) + SumOver(S \ {x}, p, w)
Det == (0..(DR - 1)) \X (0..(DC - 1))
Total(p) == SumOver(Det, p, "one")
Com(p) == << <<SumOver(Det, p, "row"), Total(p)>>, <<SumOver(Det, p, "col"), Total(p)>> >>

Params == [a : {0, 1, 2}, b : {0, 1, 3}, d : {0, 2}, e : {0, 1}, f : {0, 1}, g : {0, 1}, h : {0, 2}]

Init == /\ par \in Params /\ table = [k \in {} |-> 0] /\ ndone = 0 /\ bs \in 1..NP /\ oidx = [k \in {} |-> 0]

\* one batch: the next `bs` patterns in order
Batch ==
  /\ ndone < NP
  /\ LET hi == IF ndone + bs > NP THEN NP ELSE ndone + bs
         B == ndone..(hi - 1)
         btot == LET F[S \in SUBSET B] == IF S = {} THEN 0 ELSE LET x == CHOOSE y \in S : TRUE IN Total(PatOf(x)) + F[S \ {x}] IN F[B]
     IN /\ table' = [k \in DOMAIN table \cup B |->
                       IF k \in B
                       THEN IF BatchBug THEN << <<Com(PatOf(k))[1][1], btot>>, <<Com(PatOf(k))[2][1], btot>> >>
                            ELSE Com(PatOf(k))
                       ELSE table[k]]
        \* the same batches drive shift_origin_to: pattern k of the batch is shifted by the fitted origin with
        \* this index (the design: its own index, whatever the batch size and however short the last batch is)
        /\ oidx' = [k \in DOMAIN oidx \cup B |->
                      IF k \in B THEN (IF ShiftBug THEN ((ndone \div bs) * (hi - ndone)) + (k - ndone) ELSE k) ELSE oidx[k]]
        /\ ndone' = hi
  /\ UNCHANGED <<par, bs>>
Next == Batch
Spec == Init /\ [][Next]_vars

\* exact rational equality
REq(x, y) == x[1] * y[2] = y[1] * x[2]
ScheduleIndependent ==
  ndone = NP => \A k \in 0..(NP - 1) : REq(table[k][1], Com(PatOf(k))[1]) /\ REq(table[k][2], Com(PatOf(k))[2])
\* measured origins are write-once: no later step (further batches, background fit, detector-rotation estimate,
\* origin shift - all of which only READ the table) changes an entry
TableStable == [][\A k \in DOMAIN table : table'[k] = table[k]]_vars
ShiftScheduleIndependent == ndone = NP => \A k \in 0..(NP - 1) : oidx[k] = k
\* the centre of mass does not depend on the intensity scale: k * I has the centre of mass of I (k-fold numerator AND
\* k-fold denominator) - an estimator that floors, clamps or offsets the denominator is not scale free
ScaledCom(p, k) == << <<k * SumOver(Det, p, "row"), k * Total(p)>>, <<k * SumOver(Det, p, "col"), k * Total(p)>> >>
ScaleFree == ndone = NP => \A k \in 0..(NP - 1) : \A f \in {2, 3, 1024} :
               REq(ScaledCom(PatOf(k), f)[1], table[k][1]) /\ REq(ScaledCom(PatOf(k), f)[2], table[k][2])
\* the centre of mass lies inside the detector (sanity of the transcription)
InsideDetector ==
  \A k \in DOMAIN table : /\ table[k][1][1] >= 0 /\ table[k][1][1] <= (DR - 1) * table[k][1][2]
                          /\ table[k][2][1] >= 0 /\ table[k][2][1] <= (DC - 1) * table[k][2][2]

\* origins lying exactly on an integer plane  o(sr, sc) = p0 + p1*sr + p2*sc  (row and column plane)
PlaneR == <<par.g + 1, par.a - 1, par.b - 1>>
PlaneC == <<par.h, 1 - par.d, par.e + 1>>
PlaneVal(pl, p) == pl[1] + (pl[2] * p[1]) + (pl[3] * p[2])
\* integer per-pattern origins inside the detector, and the circular roll that moves them to the corner:
\* shifted[r, c] = data[(r + o_r) mod DR, (c + o_c) mod DC]
RollOrigin(p) == <<(par.g + p[1] + (par.a * p[2])) % DR, (par.h + (par.b * p[1]) + p[2]) % DC>>
Rolled == [k \in 1..NP |-> [r \in 1..DR |-> [c \in 1..DC |->
             Inten(PatOf(k - 1), ((r - 1) + RollOrigin(PatOf(k - 1))[1]) % DR, ((c - 1) + RollOrigin(PatOf(k - 1))[2]) % DC)]]]
\* a roll is a permutation of the pattern: totals are conserved
RollConserves == \A k \in 1..NP :
   LET F[i \in 0..(DR * DC)] == IF i = 0 THEN 0 ELSE F[i - 1] + Rolled[k][((i - 1) \div DC) + 1][((i - 1) % DC) + 1]
   IN F[DR * DC] = Total(PatOf(k - 1))

\* export: the dataset, its exact centres of mass, plane/constant origins, rolled patterns
Data == [k \in 1..NP |-> [r \in 1..DR |-> [c \in 1..DC |-> Inten(PatOf(k - 1), r - 1, c - 1)]]]
Emit == (ndone = NP /\ bs = NP) =>
          PrintT(<<"CASE", ToJson([sr |-> SR, sc |-> SC, dr |-> DR, dc |-> DC, data |-> Data,
                                   com |-> [k \in 1..NP |-> table[k - 1]],
                                   planeR |-> PlaneR, planeC |-> PlaneC,
                                   planeVals |-> [k \in 1..NP |-> <<PlaneVal(PlaneR, PatOf(k - 1)), PlaneVal(PlaneC, PatOf(k - 1))>>],
                                   rollOrigins |-> [k \in 1..NP |-> RollOrigin(PatOf(k - 1))],
                                   rolled |-> Rolled])>>)
=============================================================================
