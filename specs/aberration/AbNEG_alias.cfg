SPECIFICATION Spec
CONSTANTS L = 2
          Scope = 1
          MaxDelta = 1
          MaxLen = 5
          TermPick = 0
          ConjBug = FALSE
          AliasBug = TRUE
          GradBug = FALSE
INVARIANT SurfaceAgree
INVARIANT GradAgree
INVARIANT Euler
INVARIANT Order1Linear
PROPERTY MeaningLaw
PROPERTY ReassignLaw
CHECK_DEADLOCK FALSE
