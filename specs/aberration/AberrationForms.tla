--------------------------- MODULE AberrationForms ---------------------------
(***************************************************************************)
(* One aberration surface in all its representations (property C12, the    *)
(* part with a discrete skeleton; see DESIGN.md section 5 for what is NOT  *)
(* covered).                                                               *)
(*                                                                         *)
(* A coefficient set is carried through the representations the library    *)
(* uses, one action per library function:                                  *)
(*                                                                         *)
(*   user dict (canonical or alias spelling, 'defocus' = -C10)             *)
(*     --Standardize-->  polar (C_nm, phi_nm)                              *)
(*     --ToCart-->       Cartesian (C_nm_a, C_nm_b)                        *)
(*     --AddDelta-->     Cartesian (fitted deltas added)                   *)
(*     --ToPolar-->      polar                                             *)
(*     --Merge-->        polar (= ToCart ; AddDelta ; ToPolar in one call) *)
(*                                                                         *)
(* The MEANING of a state is the aberration function itself, evaluated in  *)
(* exact integer arithmetic on the lattice (-L..L)^2 of scattering-angle   *)
(* vectors.  On that lattice every term is a polynomial over the Gaussian  *)
(* integers:  alpha^(n+1) cos(m (phi - phi_nm)) C_nm / (n+1)               *)
(*          = Re[ z^m conj(c) ] |z|^(n+1-m) / (n+1),   z = x + i y,        *)
(* c = C_nm exp(i m phi_nm) = C_nm_a + i C_nm_b  (n+1-m is even for every  *)
(* allowed term).  All values are scaled by 60 = lcm(2..6) to stay         *)
(* integer.  Angles are restricted to directions with rational cosine and  *)
(* sine (axis directions and 3-4-5 directions) so that polar and Cartesian *)
(* coefficients are both integers.                                         *)
(*                                                                         *)
(* MeaningLaw: representation changes keep the meaning, adding a delta     *)
(* adds the delta's meaning (one surface, linear in Cartesian form).       *)
(* SurfaceAgree / GradAgree: the polar series and the polar gradient as    *)
(* the library writes them (radial and azimuthal derivative recombined     *)
(* into x/y) equal the polynomial and its exact derivative.  Euler: the    *)
(* exact derivative satisfies the homogeneity identity (a check of the     *)
(* transcription of the derivative, independent of the polar form).        *)
(* Order1Linear: at first order the gradient is the symmetric matrix       *)
(* [[C10 + a, b], [b, C10 - a]] applied to the angle vector - the matrix   *)
(* the polar-decomposition fit recovers.                                   *)
(***************************************************************************)
EXTENDS Integers, Sequences, FiniteSets, TLC, Json

CONSTANTS L,          \* lattice half width
          Scope,      \* 1: one non-zero term; 2: two terms
          MaxDelta,   \* how many delta-adding steps a behaviour may take
          MaxLen,     \* behaviour length
          TermPick,   \* 0: every first term; k: only the k-th (parallel export)
          ConjBug,    \* negative control: polar series written with phi + phi_nm
          AliasBug,   \* negative control: 'defocus' taken as +C10
          GradBug     \* negative control: azimuthal derivative enters x/y with the wrong sign

TermSeq == << <<1,0>>, <<1,2>>, <<2,1>>, <<2,3>>, <<3,0>>, <<3,2>>, <<3,4>>,
              <<4,1>>, <<4,3>>, <<4,5>>, <<5,0>>, <<5,2>>, <<5,4>>, <<5,6>> >>
Terms == {TermSeq[i] : i \in 1..Len(TermSeq)}
TermNo(t) == CHOOSE i \in 1..Len(TermSeq) : TermSeq[i] = t
ASSUME \A t \in Terms : t[2] <= t[1] + 1 /\ ((t[1] + 1 - t[2]) % 2) = 0

\* ---- Gaussian-integer arithmetic -------------------------------------------------
ZMul(u, v) == <<(u[1] * v[1]) - (u[2] * v[2]), (u[1] * v[2]) + (u[2] * v[1])>>
RECURSIVE ZPow(_, _)
ZPow(z, m) == IF m = 0 THEN <<1, 0>> ELSE ZMul(z, ZPow(z, m - 1))
RECURSIVE IPow(_, _)
IPow(x, j) == IF j = 0 THEN 1 ELSE x * IPow(x, j - 1)
R2(z) == (z[1] * z[1]) + (z[2] * z[2])
J(t) == (t[1] + 1 - t[2]) \div 2
W(t) == 60 \div (t[1] + 1)

N == (2 * L) + 1
LatSeq == [i \in 1..(N * N) |-> <<((i - 1) \div N) - L, ((i - 1) % N) - L>>]
Lat == {LatSeq[i] : i \in 1..(N * N)}

\* 60 * P_t(z) for the Cartesian coefficient c = <<a, b>>
Poly(t, c, z) == LET p == ZPow(z, t[2]) IN W(t) * ((c[1] * p[1]) + (c[2] * p[2])) * IPow(R2(z), J(t))
\* 60 * (exact gradient of P_t) by the product rule
DPoly(t, c, z) ==
  LET m == t[2]
      j == J(t)
      p == ZPow(z, m)
      q == IF m = 0 THEN <<0, 0>> ELSE ZPow(z, m - 1)
      A == (c[1] * p[1]) + (c[2] * p[2])
      Ax == m * ((c[1] * q[1]) + (c[2] * q[2]))
      Ay == m * ((c[2] * q[1]) - (c[1] * q[2]))
      Rj == IPow(R2(z), j)
      Rjm == IF j = 0 THEN 0 ELSE 2 * j * IPow(R2(z), j - 1)
  IN <<W(t) * ((Ax * Rj) + (A * Rjm * z[1])), W(t) * ((Ay * Rj) + (A * Rjm * z[2]))>>

\* ---- the polar series as the library writes it -------------------------------------
\* polar value <<k, d1, d2>>: magnitude C = k |d|, direction exp(i m phi_nm) = d / |d|
\*   C alpha^(n+1) cos(m (phi - phi_nm)) = k Re[z^m conj(d)] r^(2j)
PolarSurf(t, v, z) ==
  LET p == ZPow(z, t[2])
      d == IF ConjBug THEN <<v[2], 0 - v[3]>> ELSE <<v[2], v[3]>>
  IN W(t) * v[1] * ((d[1] * p[1]) + (d[2] * p[2])) * IPow(R2(z), J(t))
\*   C alpha^(n+1) sin(m (phi - phi_nm)) = k Im[z^m conj(d)] r^(2j)
PolarSin(t, v, z) ==
  LET p == ZPow(z, t[2])
  IN W(t) * v[1] * ((v[2] * p[2]) - (v[3] * p[1])) * IPow(R2(z), J(t))
\* alpha * dchi/dalpha  and  dchi/dphi  of the series (both scaled by 60), then the library's recombination
\*   dx = cos(phi) d_alpha - sin(phi) (1/alpha) d_phi ,  dy = sin(phi) d_alpha + cos(phi) (1/alpha) d_phi
\* multiplied through by alpha^2 = r2 to stay in the integers
PolarGradR2(t, v, z) ==
  LET dk == (t[1] + 1) * PolarSurf(t, v, z)          \* alpha * d/dalpha
      dp == 0 - (t[2] * PolarSin(t, v, z))           \* d/dphi
      s == IF GradBug THEN 0 - 1 ELSE 1
  IN <<(z[1] * dk) - (s * z[2] * dp), (z[2] * dk) + (s * z[1] * dp)>>

\* ---- state -------------------------------------------------------------------------
VARIABLES form,    \* "user_c" | "user_a" | "polar" | "cart"
          rep,     \* term -> <<k, d1, d2>> (user, polar)  or  <<a, b>> (cart)
          nd,      \* delta steps taken
          last,    \* [act, t, dv] of the step that led here
          hist
vars == <<form, rep, nd, last, hist>>

Units == {<<5, 0>>, <<0, 5>>, <<-5, 0>>, <<0, -5>>, <<3, 4>>, <<-4, 3>>, <<4, -3>>, <<-3, -4>>}
Vals(t) == IF t[2] = 0 THEN {<<k, 1, 0>> : k \in {-2, 1, 3}}
           ELSE {<<k, u[1], u[2]>> : k \in {1, -1, 2}, u \in Units}
ValsSmall(t) == IF t[2] = 0 THEN {<<-1, 1, 0>>, <<2, 1, 0>>}
                ELSE {<<1, 3, 4>>, <<-1, 0, 5>>, <<2, -4, 3>>}
Deltas(t) == IF t[2] = 0 THEN {<<2, 0>>, <<-1, 0>>} ELSE {<<1, 0>>, <<-2, 1>>, <<3, -4>>}
DeltaTerms == DOMAIN rep \cup {<<1, 2>>, <<3, 0>>}

Coef(f, t, v) ==
  IF f = "cart" THEN v
  ELSE IF f = "user_a" /\ t = <<1, 0>> THEN <<0 - (v[1] * v[2]), 0 - (v[1] * v[3])>>
  ELSE <<v[1] * v[2], v[1] * v[3]>>

RECURSIVE SumPoly(_, _, _, _)
SumPoly(S, f, r, z) == IF S = {} THEN 0
                       ELSE LET t == CHOOSE x \in S : TRUE IN Poly(t, Coef(f, t, r[t]), z) + SumPoly(S \ {t}, f, r, z)
Meaning(f, r) == [i \in 1..(N * N) |-> SumPoly(DOMAIN r, f, r, LatSeq[i])]
RECURSIVE SumD(_, _, _, _, _)
SumD(S, f, r, z, ax) == IF S = {} THEN 0
                        ELSE LET t == CHOOSE x \in S : TRUE IN DPoly(t, Coef(f, t, r[t]), z)[ax] + SumD(S \ {t}, f, r, z, ax)
Grad(f, r, ax) == [i \in 1..(N * N) |-> SumD(DOMAIN r, f, r, LatSeq[i], ax)]

RepSeq(r) == LET S == {TermNo(t) : t \in DOMAIN r}
                 F[T \in SUBSET S] == IF T = {} THEN <<>>
                                      ELSE LET i == CHOOSE x \in T : \A y \in T : x <= y
                                           IN <<<<TermSeq[i][1], TermSeq[i][2]>> \o r[TermSeq[i]]>> \o F[T \ {i}]
             IN F[S]
Entry(act, f, r, t, dv) == [act |-> act, form |-> f, rep |-> RepSeq(r), t |-> t, dv |-> dv,
                            P |-> Meaning(f, r), Gx |-> Grad(f, r, 1), Gy |-> Grad(f, r, 2)]

FirstTerms == IF TermPick = 0 THEN Terms ELSE {TermSeq[TermPick]}
InitReps ==
  IF Scope = 1 THEN UNION {{[t \in {t1} |-> v1] : v1 \in Vals(t1)} : t1 \in FirstTerms}
  ELSE UNION {UNION {{[t \in {t1, t2} |-> IF t = t1 THEN v1 ELSE v2] : v1 \in ValsSmall(t1), v2 \in ValsSmall(t2)}
                     : t2 \in {x \in Terms : TermNo(x) > TermNo(t1)}} : t1 \in FirstTerms}
\* alias spelling exists for C10 (defocus), C12 (astigmatism[_angle]), C21 (coma[_angle]), C30 (Cs), C50 (C5)
HasAlias(r) == DOMAIN r \cap {<<1, 0>>, <<1, 2>>, <<2, 1>>, <<3, 0>>, <<5, 0>>} # {}

Init == /\ rep \in InitReps
        /\ form \in {"user_c", "user_a"}
        /\ (form = "user_a" => HasAlias(rep))
        /\ nd = 0
        /\ last = [act |-> "Init", t |-> <<0, 0>>, dv |-> <<0, 0>>]
        /\ hist = <<Entry("Init", form, rep, <<0, 0>>, <<0, 0>>)>>

Step(act, f, r, t, dv, dn) ==
  /\ Len(hist) < MaxLen
  /\ form' = f /\ rep' = r /\ nd' = nd + dn
  /\ last' = [act |-> act, t |-> t, dv |-> dv]
  /\ hist' = Append(hist, Entry(act, f, r, t, dv))

Standardized(r) == [t \in DOMAIN r |-> IF form = "user_a" /\ t = <<1, 0>> /\ ~AliasBug
                                       THEN <<0 - r[t][1], r[t][2], r[t][3]>> ELSE r[t]]
CartOf(r) == [t \in DOMAIN r |-> <<r[t][1] * r[t][2], r[t][1] * r[t][3]>>]
Added(r, td, dv) == [t \in DOMAIN r \cup {td} |->
                       IF t = td THEN (IF t \in DOMAIN r THEN <<r[t][1] + dv[1], r[t][2] + dv[2]>> ELSE dv) ELSE r[t]]
PolarOf(r) == [t \in DOMAIN r |-> IF t[2] = 0 THEN <<r[t][1], 1, 0>>
                                  ELSE IF r[t] = <<0, 0>> THEN <<0, 1, 0>> ELSE <<1, r[t][1], r[t][2]>>]

Standardize == form \in {"user_c", "user_a"} /\ Step("Standardize", "polar", Standardized(rep), <<0, 0>>, <<0, 0>>, 0)
ToCart == form = "polar" /\ Step("ToCart", "cart", CartOf(rep), <<0, 0>>, <<0, 0>>, 0)
AddDelta == /\ form = "cart" /\ nd < MaxDelta
            /\ \E td \in DeltaTerms : \E dv \in Deltas(td) : Step("AddDelta", "cart", Added(rep, td, dv), td, dv, 1)
ToPolar == form = "cart" /\ Step("ToPolar", "polar", PolarOf(rep), <<0, 0>>, <<0, 0>>, 0)
Merge == /\ form = "polar" /\ nd < MaxDelta
         /\ \E td \in DeltaTerms : \E dv \in Deltas(td) :
               Step("Merge", "polar", PolarOf(Added(CartOf(rep), td, dv)), td, dv, 1)
\* a live probe model is handed coefficients AGAIN (probe_params assigned a second time): the term named in the new
\* dictionary takes the new value under the same alias rule ('defocus' = -C10); what happens to the terms that are not
\* named is not the property's business - the model keeps them and the replay compares only the named term
Reassign == /\ form = "polar" /\ Len(hist) = 2
            /\ \E td \in DOMAIN rep : \E uv \in ValsSmall(td) : \E sp \in {"c", "a"} :
                  /\ (sp = "a" => td \in {<<1, 0>>, <<1, 2>>, <<2, 1>>, <<3, 0>>, <<5, 0>>})
                  /\ LET nv == IF sp = "a" /\ td = <<1, 0>> /\ ~AliasBug THEN <<0 - uv[1], uv[2], uv[3]>> ELSE uv
                     IN Step("Reassign", "polar", [rep EXCEPT ![td] = nv], td, <<uv[1], IF sp = "a" THEN 1 ELSE 0>>, 0)
Next == Standardize \/ ToCart \/ AddDelta \/ ToPolar \/ Merge \/ Reassign
Spec == Init /\ [][Next]_vars

\* ---- properties ---------------------------------------------------------------------
VecAdd(a, b) == [i \in 1..(N * N) |-> a[i] + b[i]]
DeltaMeaning(t, dv) == [i \in 1..(N * N) |-> Poly(t, dv, LatSeq[i])]
MeaningLaw ==
  [][ /\ last'.act \in {"Standardize", "ToCart", "ToPolar"} => Meaning(form', rep') = Meaning(form, rep)
      /\ last'.act \in {"AddDelta", "Merge"} =>
           Meaning(form', rep') = VecAdd(Meaning(form, rep), DeltaMeaning(last'.t, last'.dv)) ]_vars

\* the re-assigned term means what the user wrote: C10 = -defocus under the alias spelling, the plain value otherwise
ReassignLaw ==
  [][ last'.act = "Reassign" =>
        LET td == last'.t  k == last'.dv[1]  al == last'.dv[2] = 1
            c == Coef("polar", td, rep'[td])
            d == <<rep'[td][2], rep'[td][3]>>
        IN c = IF al /\ td = <<1, 0>> THEN <<0 - (k * d[1]), 0 - (k * d[2])>> ELSE <<k * d[1], k * d[2]>> ]_vars
PolarForm == form \in {"polar", "user_c"}
SurfaceAgree == PolarForm => \A t \in DOMAIN rep : \A z \in Lat :
                   PolarSurf(t, rep[t], z) = Poly(t, Coef(form, t, rep[t]), z)
GradAgree == PolarForm => \A t \in DOMAIN rep : \A z \in Lat :
               LET g == PolarGradR2(t, rep[t], z)
                   e == DPoly(t, Coef(form, t, rep[t]), z)
               IN g[1] = R2(z) * e[1] /\ g[2] = R2(z) * e[2]
Euler == \A t \in DOMAIN rep : \A z \in Lat :
           LET e == DPoly(t, Coef(form, t, rep[t]), z)
           IN (z[1] * e[1]) + (z[2] * e[2]) = (t[1] + 1) * Poly(t, Coef(form, t, rep[t]), z)
\* first order: gradient = [[C10 + a, b], [b, C10 - a]] z   (scaled by 60)
Order1Linear ==
  (DOMAIN rep \subseteq {<<1, 0>>, <<1, 2>>}) =>
     LET c0 == IF <<1, 0>> \in DOMAIN rep THEN Coef(form, <<1, 0>>, rep[<<1, 0>>])[1] ELSE 0
         c2 == IF <<1, 2>> \in DOMAIN rep THEN Coef(form, <<1, 2>>, rep[<<1, 2>>]) ELSE <<0, 0>>
     IN \A i \in 1..(N * N) :
          LET z == LatSeq[i]
          IN /\ Grad(form, rep, 1)[i] = 60 * (((c0 + c2[1]) * z[1]) + (c2[2] * z[2]))
             /\ Grad(form, rep, 2)[i] = 60 * ((c2[2] * z[1]) + ((c0 - c2[1]) * z[2]))

Done == Len(hist) = MaxLen \/ (~ENABLED Next)
Emit == (Len(hist) = MaxLen) => PrintT(<<"CASE", ToJson([l |-> L, hist |-> hist])>>)
=============================================================================
