--------------------------- MODULE PtychoLifecycle ---------------------------
(***************************************************************************)
(* Checkpoint / resume equivalence of iterative ptychography (C05).        *)
(*                                                                         *)
(* Two processes of one family receive the same logical calls: `twin`      *)
(* runs uninterrupted, `run` is interrupted between calls by save+reload   *)
(* (zip or directory store, raw data included) or by an in-memory clone.   *)
(* The specification says an interruption is a STUTTERING step of the      *)
(* reconstruction state (Restore o Snapshot = identity on everything the   *)
(* continuation depends on), so the two processes agree after every call   *)
(* (FamilyAgree) and a reloaded process reports what was saved             *)
(* (ReloadRestores).                                                       *)
(*                                                                         *)
(* The reconstruction state is the discrete skeleton of the real object:   *)
(* iteration count, per-key learning-rate history (with the library's      *)
(* zero back-fill), optimizer identity/step counters, scheduler epochs,    *)
(* constraints, and the symbolic trajectory `theta` (the sequence of       *)
(* update tokens; two processes are numerically equal iff their token      *)
(* sequences are equal - full-batch updates are deterministic).  Eff       *)
(* transcribes Ptychography.reconstruct's handling of reset /              *)
(* optimizer_params / scheduler_params.                                    *)
(***************************************************************************)
EXTENDS Naturals, Sequences, FiniteSets, TLC, Json

CONSTANTS Bug,        \* negative controls: "none" | "optsteps" | "lrhist" | "schedepoch"
          Record, MaxCalls, MaxInts

Keys == {"object", "probe"}
NoOpt == [type |-> "none", lr |-> 0, steps |-> 0, gen |-> 0]
NoSched == [type |-> "none", e |-> 0, total |-> 0, og |-> 0, dbl |-> FALSE]
NoParams == [type |-> "unset", lr |-> 0]

InitState ==
  [iters |-> 0, lrs |-> [k \in {} |-> <<>>], opt |-> [k \in Keys |-> NoOpt], optp |-> [k \in Keys |-> NoParams],
   sched |-> [k \in Keys |-> NoSched], schedp |-> [k \in Keys |-> "none"], cons |-> "default",
   theta |-> <<>>, ngen |-> 0]

\* (re)create the optimizers of every key that has parameters (set_optimizers)
SetOptimizers(st) ==
  LET keys == {k \in Keys : st.optp[k].type # "unset"} IN
  [st EXCEPT !.opt = [k \in Keys |->
                        IF k \in keys
                        THEN IF st.optp[k].type = "none" THEN NoOpt
                             ELSE [type |-> st.optp[k].type, lr |-> st.optp[k].lr, steps |-> 0, gen |-> st.ngen + 1]
                        ELSE st.opt[k]],
              \* type "none" removes optimizer, parameters and scheduler of that key
              !.optp = [k \in Keys |-> IF k \in keys /\ st.optp[k].type = "none" THEN NoParams ELSE st.optp[k]],
              !.schedp = [k \in Keys |-> IF k \in keys /\ st.optp[k].type = "none" THEN "none" ELSE st.schedp[k]],
              !.sched = [k \in Keys |-> IF k \in keys /\ st.optp[k].type = "none" THEN NoSched ELSE st.sched[k]],
              !.ngen = st.ngen + 1]
\* (re)create schedulers from the stored scheduler parameters (set_schedulers)
SetSchedulers(st, n) ==
  [st EXCEPT !.sched = [k \in Keys |->
       IF st.schedp[k] = "none" \/ st.opt[k].type = "none" THEN NoSched
       ELSE \* og: optimizer generation the scheduler sits on; dbl: a scheduler had already been created
            \* on this very optimizer (torch schedulers rescale the lr at construction, so the numeric
            \* learning rate is then not predicted by the replayer, only compared twin-vs-run)
            [type |-> st.schedp[k], e |-> 0, total |-> n, og |-> st.opt[k].gen,
             dbl |-> (st.sched[k].type # "none" /\ st.sched[k].og = st.opt[k].gen)]]]

\* one full-batch iteration
Iterate(st) ==
  LET active == {k \in Keys : st.opt[k].type # "none"}
      known == DOMAIN st.lrs \cup active
      lrNow(k) == [lr |-> st.opt[k].lr, sch |-> st.sched[k].type, e |-> st.sched[k].e, total |-> st.sched[k].total,
                   dbl |-> st.sched[k].dbl]
      zero == [lr |-> 0, sch |-> "none", e |-> 0, total |-> 0, dbl |-> FALSE]
  IN [st EXCEPT
        !.iters = @ + 1,
        !.lrs = [k \in known |->
                   IF k \in DOMAIN st.lrs
                   THEN Append(st.lrs[k], IF k \in active THEN lrNow(k) ELSE zero)
                   ELSE [i \in 1..st.iters |-> zero] \o <<lrNow(k)>>],          \* back-fill for a new key
        !.opt = [k \in Keys |-> IF k \in active THEN [st.opt[k] EXCEPT !.steps = @ + 1] ELSE st.opt[k]],
        !.sched = [k \in Keys |-> IF st.sched[k].type # "none" THEN [st.sched[k] EXCEPT !.e = @ + 1] ELSE st.sched[k]],
        !.theta = Append(@, [gens |-> [k \in Keys |-> st.opt[k].gen], steps |-> [k \in Keys |-> st.opt[k].steps],
                             lr |-> [k \in Keys |-> IF k \in active THEN lrNow(k) ELSE zero], cons |-> st.cons])]
RECURSIVE IterateN(_, _)
IterateN(st, n) == IF n = 0 THEN st ELSE IterateN(Iterate(st), n - 1)

\* a call: [n, reset, optp (function on a subset of Keys, possibly empty), skeep (no scheduler_params given),
\*          schedp (function on a subset of Keys), cons]
Eff(st, c) ==
  LET s1 == IF c.reset
            THEN \* reset_recon: histories cleared, every model's optimizer and scheduler re-created
                 \* from its stored parameters (scheduler without num_iter), parameters back to start
                 SetSchedulers(SetOptimizers([st EXCEPT !.iters = 0, !.lrs = [k \in {} |-> <<>>], !.theta = <<>>,
                                                        !.cons = "default"]), 0)
            ELSE st
      s2 == IF c.cons # "default" THEN [s1 EXCEPT !.cons = c.cons] ELSE s1      \* constraints persist across calls
      s3 == IF DOMAIN c.optp # {}
            THEN SetOptimizers([s2 EXCEPT !.optp = [k \in Keys |-> IF k \in DOMAIN c.optp THEN c.optp[k] ELSE @[k]]])
            ELSE s2
      s4 == IF ~c.skeep
            THEN [s3 EXCEPT !.schedp = [k \in Keys |-> IF k \in DOMAIN c.schedp THEN c.schedp[k] ELSE "none"]]
            ELSE s3
      newSched == c.reset \/ DOMAIN c.optp # {} \/ ~c.skeep
      s5 == IF newSched THEN SetSchedulers(s4, c.n) ELSE s4
  IN IterateN(s5, c.n)

\* what an interruption preserves.  The design: everything.  (Bug variants = negative controls.)
Restore(st) ==
  CASE Bug = "optsteps"   -> [st EXCEPT !.opt = [k \in Keys |-> IF @[k].type = "none" THEN @[k] ELSE [@[k] EXCEPT !.steps = 0, !.gen = st.ngen + 1]],
                                        !.ngen = st.ngen + 1]
    [] Bug = "lrhist"     -> [st EXCEPT !.lrs = [k \in {} |-> <<>>]]
    [] Bug = "schedepoch" -> [st EXCEPT !.sched = [k \in Keys |-> IF @[k].type = "none" THEN @[k] ELSE [@[k] EXCEPT !.e = 0]]]
    [] OTHER -> st

---------------------------------------------------------------------------
VARIABLES twin, run, ncalls, nints, hist, last
vars == <<twin, run, ncalls, nints, hist, last>>

Adam(l) == [type |-> "adam", lr |-> l]
Calls(first) ==
  LET ns == {1, 2}
      base == [n |-> 1, reset |-> FALSE, optp |-> [k \in {} |-> NoParams], skeep |-> TRUE, schedp |-> [k \in {} |-> "none"], cons |-> "default"]
      A(n) == [base EXCEPT !.n = n, !.optp = [k \in Keys |-> IF k = "object" THEN Adam(1) ELSE Adam(2)]]
      D(n) == [A(n) EXCEPT !.skeep = FALSE, !.schedp = [k \in Keys |-> IF k = "object" THEN "exp" ELSE "linear"]]
      D2(n) == [A(n) EXCEPT !.optp = [k \in Keys |-> IF k = "object" THEN [type |-> "adamw", lr |-> 1] ELSE [type |-> "sgd", lr |-> 3]],
                            !.skeep = FALSE, !.schedp = [k \in {"probe"} |-> "plateau"]]
      \* plain SGD keeps NO per-parameter state, so its state dict stays empty after stepping: with a scheduler
      \* that has already moved the lr, everything an interruption must carry over lives in the param group
      S(n) == [A(n) EXCEPT !.optp = [k \in Keys |-> [type |-> "sgd", lr |-> IF k = "object" THEN 3 ELSE 2]],
                           !.skeep = FALSE, !.schedp = [k \in Keys |-> "exp"]]
      \* a schedule that ENDS AT ZERO: after n iterations the learning rate is exactly 0 and stays there - a value an
      \* interruption must carry over like any other (0 is "falsy" in the implementation language)
      Z(n) == [A(n) EXCEPT !.skeep = FALSE, !.schedp = [k \in Keys |-> IF k = "object" THEN "linzero" ELSE "exp"]]
  IN IF first THEN {A(n) : n \in ns} \cup {D(n) : n \in ns} \cup {D2(2)} \cup {S(n) : n \in ns} \cup {Z(n) : n \in ns}
     ELSE {[base EXCEPT !.n = n] : n \in ns}                                                    \* plain continuation
          \cup {[base EXCEPT !.n = n, !.optp = [k \in {"object"} |-> [type |-> "sgd", lr |-> 3]]] : n \in ns}   \* new object optimizer
          \cup {D(n) : n \in ns}
          \cup {[base EXCEPT !.n = n, !.reset = TRUE] : n \in ns}
          \cup {[base EXCEPT !.n = 1, !.optp = [k \in {"probe"} |-> [type |-> "none", lr |-> 0]]]}              \* drop the probe optimizer
          \cup {[base EXCEPT !.n = n, !.optp = [k \in {"object"} |-> [type |-> "none", lr |-> 0]]] : n \in ns}   \* drop the object optimizer (probe-only refinement)
          \cup {[base EXCEPT !.n = 1, !.optp = [k \in {"probe"} |-> Adam(2)]]}                                  \* (re-)add a probe optimizer (staged optimisation)
          \cup {[base EXCEPT !.n = 1, !.cons = "tv"]}                                             \* constraints changed
          \cup {[base EXCEPT !.n = 2, !.skeep = FALSE, !.schedp = [k \in {"object"} |-> "exp"]]}                   \* scheduler only

Log(e) == hist' = IF Record THEN Append(hist, e) ELSE hist

Init == twin = InitState /\ run = InitState /\ ncalls = 0 /\ nints = 0 /\ hist = <<>> /\ last = "init"

\* the same logical call is applied to both processes ("continuing with the same calls")
Call == \E c \in Calls(ncalls = 0) :
  /\ ncalls < MaxCalls
  /\ twin' = Eff(twin, c) /\ run' = Eff(run, c) /\ ncalls' = ncalls + 1 /\ last' = "call"
  /\ Log([ev |-> "call", c |-> c, kind |-> "", post |-> Eff(twin, c)]) /\ UNCHANGED nints

\* interruption of `run`: save + reload (zip / dir) or clone; a stuttering step by design
Interrupt == \E kind \in {"zip", "dir", "clone"} :
  /\ ncalls >= 1 /\ nints < MaxInts /\ last = "call"
  /\ run' = Restore(run) /\ nints' = nints + 1 /\ last' = "int"
  /\ Log([ev |-> "interrupt", c |-> [n |-> 0], kind |-> kind, post |-> Restore(run)]) /\ UNCHANGED <<twin, ncalls>>

Next == Call \/ Interrupt
Spec == Init /\ [][Next]_vars

\* projection the property talks about
Proj(st) == [iters |-> st.iters, lrs |-> st.lrs, steps |-> [k \in Keys |-> st.opt[k].steps],
             types |-> [k \in Keys |-> st.opt[k].type], sched |-> st.sched, cons |-> st.cons, theta |-> st.theta]
FamilyAgree == Proj(twin) = Proj(run)
ReloadRestores == [][ last' = "int" => Proj(run') = Proj(run) ]_vars
\* bookkeeping sanity of the transcription: every lr history has one entry per iteration
LrHistoryComplete == \A k \in DOMAIN twin.lrs : Len(twin.lrs[k]) = twin.iters

Emit == (Record /\ ncalls = MaxCalls /\ last = "call") => PrintT(<<"CASE", ToJson(hist)>>)
=============================================================================
