SPECIFICATION Spec
CONSTANTS Bug = "schedepoch"
          Record = FALSE
          MaxCalls = 3
          MaxInts = 2
INVARIANT FamilyAgree
INVARIANT LrHistoryComplete
PROPERTY ReloadRestores
