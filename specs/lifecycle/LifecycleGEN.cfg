SPECIFICATION Spec
CONSTANTS Bug = "none"
          Record = TRUE
          MaxCalls = 3
          MaxInts = 2
INVARIANT Emit
