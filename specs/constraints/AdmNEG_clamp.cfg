SPECIFICATION Spec
CONSTANTS Part = "object"
          NS = 2
          NPX = 1
          K = 1
          Fam = 1
          ClampBug = TRUE
          ConjBug = FALSE
INVARIANT AdmissibleObject
CHECK_DEADLOCK FALSE
