SPECIFICATION Spec
CONSTANTS Part = "object"
          NS = 2
          NPX = 1
          K = 1
          Fam = 1
          ClampBug = FALSE
          ConjBug = FALSE
INVARIANT ObjEmit
CHECK_DEADLOCK FALSE
