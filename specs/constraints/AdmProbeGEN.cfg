SPECIFICATION Spec
CONSTANTS Part = "probe"
          NS = 1
          NPX = 1
          K = 2
          Fam = 2
          ClampBug = FALSE
          ConjBug = FALSE
CHECK_DEADLOCK FALSE
INVARIANT ProbeEmit
