SPECIFICATION Spec
CONSTANTS Part = "probe"
          NS = 1
          NPX = 1
          K = 2
          Fam = 2
          ClampBug = FALSE
          ConjBug = FALSE
INVARIANT OrthoSoFar
INVARIANT NoneLost
INVARIANT SortedDescending
INVARIANT SameMultiset
CHECK_DEADLOCK FALSE
