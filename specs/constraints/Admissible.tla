------------------------------ MODULE Admissible ------------------------------
(***************************************************************************)
(* Physically admissible object and probe models (property C10, PARTIAL -  *)
(* see DESIGN.md section 5 for what is not covered).                       *)
(*                                                                         *)
(* Part "object": the hard-constraint pipeline of an object model as a     *)
(* step-wise state machine over amplitude BOUNDS.  Amplitudes are exact    *)
(* multiples of 1/20 (Unit = 20).  Each step narrows or keeps the interval *)
(* [lo, hi] in which the amplitude (complex / pure-phase objects) or the   *)
(* value (potential objects) of every entry may lie; where the property is *)
(* silent (fractional field-of-view mask values, the baseline offset, the  *)
(* amplitude after slice tying) the step is deliberately loose, so any     *)
(* implementation that satisfies the property stays inside the bounds.     *)
(* AdmissibleObject is the property's claim read off the final bounds.     *)
(*                                                                         *)
(* Part "probe": Gram-Schmidt orthogonalisation of K modes in Z[i]^D with  *)
(* norm restoration and intensity sort, in exact fraction-free arithmetic  *)
(* (one Subtract step per earlier mode, one Push per mode, Restore, Sort). *)
(* OrthoSoFar holds after every step, the sorted intensities are the input *)
(* intensities in descending order.  The requested-weight normalisation is *)
(* exact rational arithmetic on the restored intensities.                  *)
(***************************************************************************)
EXTENDS Integers, Sequences, FiniteSets, TLC, Json

CONSTANTS Part,        \* "object" | "probe"
          NS, NPX,     \* object part: slices, pixels per slice
          K, Fam,      \* probe part: number of modes, vector family (1: unit entries, 2: adds a nearly parallel pair)
          ClampBug,    \* negative control (object): complex amplitude not clamped
          ConjBug      \* negative control (probe): projection coefficient <w, v> instead of <v, w>

Unit == 20
Inf == 1000000
D == 4

\* ======================= object part ============================================
RawAmp == {0, 10, 20, 40, 100}          \* |z| in units of 1/20: 0, 1/2, 1, 2, 5
RawPot == {-40, -10, 0, 10, 40}
MaskVals == {0, 10, 20}
Entries == 1..(NS * NPX)
PixOf(e) == ((e - 1) % NPX) + 1

Configs == [otype : {"complex", "pure_phase", "potential"}, fov : BOOLEAN, tie : BOOLEAN,
            pos : BOOLEAN, base : {"off", "on"}, hasmask : BOOLEAN]
Sensible(c) == /\ (c.otype # "potential" => (c.pos /\ c.base = "off"))     \* potential-only switches fixed otherwise
               /\ (c.fov => c.hasmask) /\ (NS = 1 => ~c.tie)

VARIABLES cfg, raw, mask, stage, b, hist
ovars == <<cfg, raw, mask, stage, b, hist>>

Min(a, c) == IF a < c THEN a ELSE c
ObjInit ==
  /\ cfg \in {c \in Configs : Sensible(c)}
  /\ raw \in [Entries -> IF cfg.otype = "potential" THEN RawPot ELSE RawAmp]
  /\ mask \in IF cfg.hasmask THEN [Entries -> MaskVals] ELSE {[e \in Entries |-> Unit]}      \* a mask may differ from slice to slice
  /\ stage = "raw"
  /\ b = [e \in Entries |-> <<raw[e], raw[e]>>]
  /\ hist = <<>>

ObjStep(name, nb, ns) == /\ b' = nb /\ stage' = ns /\ hist' = Append(hist, name) /\ UNCHANGED <<cfg, raw, mask>>

\* amplitude clamp (complex) / unit amplitude (pure phase); potential: nothing
Amp == /\ stage = "raw"
       /\ ObjStep("Amp",
                  [e \in Entries |->
                     IF cfg.otype = "complex" THEN (IF ClampBug THEN b[e] ELSE <<Min(raw[e], Unit), Min(raw[e], Unit)>>)
                     ELSE IF cfg.otype = "pure_phase" THEN <<Unit, Unit>> ELSE b[e]], "amp")
\* potential baseline: an offset the property says nothing about
Baseline == /\ stage = "amp"
            /\ ObjStep("Baseline",
                       [e \in Entries |-> IF cfg.otype = "potential" /\ cfg.base = "on" THEN <<0 - Inf, Inf>> ELSE b[e]], "based")
\* positivity clamp
Positivity == /\ stage = "based"
              /\ ObjStep("Positivity",
                         [e \in Entries |-> IF cfg.otype = "potential" /\ cfg.pos
                                            THEN <<(IF b[e][1] < 0 THEN 0 ELSE b[e][1]), (IF b[e][2] < 0 THEN 0 ELSE b[e][2])>>
                                            ELSE b[e]], "clamped")
\* field-of-view mask: value 1 keeps the entry, anything else may shrink it towards 0 by an unspecified amount
Mask == /\ stage = "clamped"
        /\ ObjStep("Mask",
                   [e \in Entries |-> IF cfg.fov /\ mask[e] # Unit
                                      THEN (IF cfg.otype = "potential" /\ ~cfg.pos THEN <<0 - Inf, Inf>> ELSE <<0, b[e][2]>>)
                                      ELSE b[e]], "masked")
\* slice tying: the mean over slices - only claimed to tie; amplitude anywhere below the largest slice amplitude
Tie == /\ stage = "masked"
       /\ LET hiOf(p) == LET S == {b[e][2] : e \in {x \in Entries : PixOf(x) = p}} IN CHOOSE m \in S : \A y \in S : y <= m
              loOf(p) == LET S == {b[e][1] : e \in {x \in Entries : PixOf(x) = p}} IN CHOOSE m \in S : \A y \in S : m <= y
          IN ObjStep("Tie",
                     [e \in Entries |-> IF cfg.tie
                                        THEN (IF cfg.otype = "potential" THEN <<loOf(PixOf(e)), hiOf(PixOf(e))>> ELSE <<0, hiOf(PixOf(e))>>)
                                        ELSE b[e]], "done")
ObjNext == Amp \/ Baseline \/ Positivity \/ Mask \/ Tie

\* the property's claim, read off the final bounds
ExactEntry(e) == ~cfg.tie /\ (~cfg.fov \/ mask[e] = Unit)
AdmissibleObject ==
  stage = "done" =>
    \A e \in Entries :
      /\ cfg.otype = "complex" => b[e][2] <= Unit
      /\ cfg.otype = "pure_phase" => (b[e][2] <= Unit /\ (ExactEntry(e) => b[e] = <<Unit, Unit>>))
      /\ (cfg.otype = "potential" /\ cfg.pos) => b[e][1] >= 0
\* applying the pipeline to a value inside the final bounds keeps its amplitude where the pipeline is exact
IdemEntry(e) == cfg.otype # "potential" /\ ~cfg.tie /\ (~cfg.fov \/ mask[e] \in {0, Unit})
ObjEmit == stage = "done" =>
  PrintT(<<"CASE", ToJson([part |-> "object", ns |-> NS, npx |-> NPX, cfg |-> cfg,
                           raw |-> [e \in Entries |-> raw[e]], mask |-> [e \in Entries |-> mask[e]],
                           b |-> [e \in Entries |-> b[e]],
                           idem |-> [e \in Entries |-> IdemEntry(e)], steps |-> hist])>>)

\* ======================= probe part =============================================
ZI(a, c) == <<a, c>>
FamUnit == { <<ZI(1,0), ZI(1,0), ZI(1,0), ZI(1,0)>>, <<ZI(1,0), ZI(1,0), ZI(0,1), ZI(0,0)>>,
             <<ZI(1,0), ZI(0,0), ZI(0,0), ZI(0,0)>>, <<ZI(1,0), ZI(0,1), ZI(0,0), ZI(1,0)>>,
             <<ZI(1,0), ZI(0,-1), ZI(-1,0), ZI(0,0)>>, <<ZI(0,1), ZI(1,0), ZI(1,0), ZI(-1,0)>>,
             <<ZI(0,0), ZI(1,0), ZI(1,1), ZI(0,0)>>, <<ZI(2,0), ZI(1,0), ZI(0,0), ZI(0,-1)>> }
FamNear == { <<ZI(7,0), ZI(7,0), ZI(7,0), ZI(0,0)>>, <<ZI(7,0), ZI(7,0), ZI(5,0), ZI(0,0)>>,
             <<ZI(0,7), ZI(7,0), ZI(6,1), ZI(0,0)>> }
Family == IF Fam = 1 THEN FamUnit ELSE FamUnit \cup FamNear
Scales == {1, 2, 3}
Weights == IF K = 1 THEN {<<1>>} ELSE IF K = 2 THEN {<<7, 3>>, <<1, 1>>, <<98, 2>>}
           ELSE IF K = 3 THEN {<<5, 3, 2>>, <<96, 2, 2>>} ELSE {<<4, 3, 2, 1>>, <<94, 2, 2, 2>>}
MeanInts == {1, 1000}

CMul(c, v) == <<(c[1] * v[1]) - (c[2] * v[2]), (c[1] * v[2]) + (c[2] * v[1])>>
ConjMul(a, c) == <<(a[1] * c[1]) + (a[2] * c[2]), (a[1] * c[2]) - (a[2] * c[1])>>     \* conj(a) * c
Inner(u, v) == LET F[k \in 0..D] == IF k = 0 THEN <<0, 0>>
                                   ELSE <<F[k - 1][1] + ConjMul(u[k], v[k])[1], F[k - 1][2] + ConjMul(u[k], v[k])[2]>>
               IN F[D]
Norm2(u) == Inner(u, u)[1]
Abs(x) == IF x < 0 THEN 0 - x ELSE x
RECURSIVE Gcd(_, _)
Gcd(a, c) == IF c = 0 THEN a ELSE Gcd(c, a % c)
VecGcd(w) == LET F[k \in 0..D] == IF k = 0 THEN 0 ELSE Gcd(Gcd(F[k - 1], Abs(w[k][1])), Abs(w[k][2])) IN F[D]
Reduce(w) == LET g == VecGcd(w) IN IF g <= 1 THEN w ELSE [k \in 1..D |-> <<w[k][1] \div g, w[k][2] \div g>>]
\* w - (<v, w> / <v, v>) v   scaled by <v, v>   (the library: sum(conj(q_j) * p_i) * q_j)
ProjStep(w, v) == LET n == Norm2(v)
                      c == IF ConjBug THEN Inner(w, v) ELSE Inner(v, w)
                  IN [k \in 1..D |-> <<(n * w[k][1]) - CMul(c, v[k])[1], (n * w[k][2]) - CMul(c, v[k])[2]>>]
Zero(w) == \A k \in 1..D : w[k] = <<0, 0>>

VARIABLES P, sc, wts, mi, i, j, w, vs, pstage, order
pvars == <<P, sc, wts, mi, i, j, w, vs, pstage, order>>
Scaled(m) == [k \in 1..D |-> <<sc[m] * P[m][k][1], sc[m] * P[m][k][2]>>]

ProbeInit ==
  /\ P \in [1..K -> Family] /\ (\A a, c \in 1..K : a # c => P[a] # P[c])
  /\ sc \in [1..K -> Scales] /\ wts \in Weights /\ mi \in MeanInts
  /\ i = 1 /\ j = 1 /\ w = Scaled(1) /\ vs = <<>> /\ pstage = "gs" /\ order = <<>>

Subtract == /\ pstage = "gs" /\ i <= K /\ j <= Len(vs)
            /\ w' = Reduce(ProjStep(w, vs[j])) /\ j' = j + 1
            /\ UNCHANGED <<P, sc, wts, mi, i, vs, pstage, order>>
Push == /\ pstage = "gs" /\ i <= K /\ j > Len(vs) /\ ~Zero(w)            \* linearly dependent sets stop here
        /\ vs' = Append(vs, w) /\ i' = i + 1 /\ j' = 1
        /\ w' = IF i + 1 <= K THEN Scaled(i + 1) ELSE w
        /\ UNCHANGED <<P, sc, wts, mi, pstage, order>>
\* norm restoration: mode m gets the norm of input m back
Restore == /\ pstage = "gs" /\ i = K + 1 /\ pstage' = "restored"
           /\ UNCHANGED <<P, sc, wts, mi, i, j, w, vs, order>>
Inten(m) == Norm2(Scaled(m))
Perms == {f \in [1..K -> 1..K] : \A a, c \in 1..K : a # c => f[a] # f[c]}
Sort == /\ pstage = "restored"
        /\ \E f \in Perms : /\ \A a \in 1..(K - 1) : Inten(f[a]) >= Inten(f[a + 1])
                            /\ order' = f
        /\ pstage' = "sorted"
        /\ UNCHANGED <<P, sc, wts, mi, i, j, w, vs>>
ProbeNext == Subtract \/ Push \/ Restore \/ Sort

OrthoSoFar == \A a, c \in 1..Len(vs) : a # c => Inner(vs[a], vs[c]) = <<0, 0>>
\* every orthogonal vector lies in the span it should: v_m - (multiple of p_m) is orthogonal to nothing new is not
\* needed for the property; what is: no vector is lost
NoneLost == \A a \in 1..Len(vs) : ~Zero(vs[a])
SortedDescending == pstage = "sorted" => \A a \in 1..(K - 1) : Inten(order[a]) >= Inten(order[a + 1])
SameMultiset == pstage = "sorted" => \A m \in 1..K : Cardinality({a \in 1..K : Inten(order[a]) = Inten(m)})
                                                    = Cardinality({a \in 1..K : Inten(a) = Inten(m)})
WSum == LET F[k \in 0..K] == IF k = 0 THEN 0 ELSE F[k - 1] + wts[k] IN F[K]
ProbeEmit == pstage = "sorted" =>
  PrintT(<<"CASE", ToJson([part |-> "probe", k |-> K, modes |-> [m \in 1..K |-> Scaled(m)],
                           inten |-> [a \in 1..K |-> Inten(order[a])],
                           dirs |-> vs, weights |-> wts, mean |-> mi,
                           target |-> [m \in 1..K |-> <<mi * wts[m], WSum>>]])>>)

\* ======================= composition ===========================================
vars == <<ovars, pvars>>
Init == IF Part = "object"
        THEN ObjInit /\ P = <<>> /\ sc = <<>> /\ wts = <<>> /\ mi = 0 /\ i = 0 /\ j = 0 /\ w = <<>> /\ vs = <<>>
             /\ pstage = "off" /\ order = <<>>
        ELSE ProbeInit /\ cfg = [otype |-> "none"] /\ raw = <<>> /\ mask = <<>> /\ stage = "off" /\ b = <<>> /\ hist = <<>>
Next == \/ (Part = "object" /\ ObjNext /\ UNCHANGED pvars)
        \/ (Part = "probe" /\ ProbeNext /\ UNCHANGED ovars)
Spec == Init /\ [][Next]_vars
=============================================================================
