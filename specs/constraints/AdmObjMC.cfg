SPECIFICATION Spec
CONSTANTS Part = "object"
          NS = 2
          NPX = 2
          K = 1
          Fam = 1
          ClampBug = FALSE
          ConjBug = FALSE
INVARIANT AdmissibleObject
CHECK_DEADLOCK FALSE
