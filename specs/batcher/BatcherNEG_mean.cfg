SPECIFICATION Spec
CONSTANTS MaxN = 3
          MaxBS = 3
          MaxLog = 4
          MaxLevel = 11
CONSTRAINT Bound
INVARIANT Partition
INVARIANT VisitedOnce
INVARIANT ExactlyOnce
PROPERTY EpochComplete
INVARIANT Deterministic
PROPERTY LenMatches
PROPERTY BatchMeanAlways
