---------------------------- MODULE BatcherTrace ----------------------------
(* Trace validation for C09: executions of the real SimpleBatcher (driven     *)
(* stand-alone) and of Ptychography.reconstruct (events emitted by the        *)
(* guarded hook in the batch loop) are checked against Batcher.tla.  A trace  *)
(* may contain `restart` events (re-seeded run / reset): the batches after a  *)
(* restart must reproduce the batches recorded before it.                     *)
EXTENDS Naturals, Sequences, FiniteSets, TLC, Json, IOUtils

Traces == JsonDeserialize(IOEnv.TRACE_FILE)
NT == Len(Traces)

VARIABLES n, bs, train, val, phase, remaining, yielded, visits, acc, log, expect, tid, l
INSTANCE Batcher WITH MaxN <- 64, MaxBS <- 64, MaxLog <- 0, MaxLevel <- 0

tvars == <<n, bs, train, val, phase, remaining, yielded, visits, acc, log, expect, tid, l>>
ev == Traces[tid][l]
SetOf(s) == {s[i] : i \in DOMAIN s}
IsEvent(op) == l <= Len(Traces[tid]) /\ ev.op = op /\ l' = l + 1 /\ UNCHANGED tid

TCreate  == IsEvent("create") /\ Len(ev.train) + Len(ev.val) = ev.n   \* no duplicates hidden by sets
                               /\ Create(ev.n, ev.bs, SetOf(ev.train), SetOf(ev.val))
TStart   == IsEvent("start")   /\ StartEpoch
TBatch   == IsEvent("batch")   /\ Yield(ev.idx)
TEnd     == IsEvent("end")     /\ EndEpoch(ev.len)
TVStart  == IsEvent("vstart")  /\ StartVal
TVBatch  == IsEvent("vbatch")  /\ YieldVal(ev.idx)
TVEnd    == IsEvent("vend")    /\ EndVal(ev.len)
TRestart == IsEvent("restart") /\ Restart

TInit == Init /\ tid \in 1..NT /\ l = 1
TNext == TCreate \/ TStart \/ TBatch \/ TEnd \/ TVStart \/ TVBatch \/ TVEnd \/ TRestart
TSpec == TInit /\ [][TNext]_tvars

ASSUME TLCSet(1, [t \in 1..NT |-> 0])
Progress == LET cur == TLCGet(1) IN
            IF l > cur[tid] THEN TLCSet(1, [cur EXCEPT ![tid] = l]) ELSE TRUE
AllAccepted == LET p == TLCGet(1) IN
   /\ PrintT(<<"PROGRESS", p>>)
   /\ \A t \in 1..NT : p[t] = Len(Traces[t]) + 1
=============================================================================
