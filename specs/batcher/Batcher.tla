------------------------------ MODULE Batcher ------------------------------
(***************************************************************************)
(* Mini-batch scheduling of iterative ptychography (property C09).         *)
(*                                                                         *)
(* A batcher over patterns 0..n-1 is created with a batch size and a       *)
(* train/validation split.  The specification leaves the split itself      *)
(* open (ANY partition; the property only demands disjointness and         *)
(* coverage) and the order inside an epoch open (ANY order; shuffling).    *)
(* What it fixes: per epoch the yielded batches partition the training     *)
(* set, every batch but the last has exactly `bs` elements, the reported   *)
(* number of batches equals the number yielded, the validation pass visits *)
(* each validation pattern once, and a run re-started from the same seed   *)
(* (Restart) yields exactly the batches of the recorded run.               *)
(***************************************************************************)
EXTENDS Naturals, Sequences, FiniteSets, TLC

CONSTANTS MaxN, MaxBS, MaxLog, MaxLevel

VARIABLES n, bs, train, val,     \* configuration (sets of pattern indices)
          phase,                 \* "none" | "idle" | "train" | "val"
          remaining,             \* training (or validation) patterns not yet yielded in this pass
          yielded,               \* batches yielded in this pass
          visits,                \* how often each pattern was yielded in this pass (history)
          acc,                   \* sum of the per-pattern loss terms yielded in this pass (history)
          log,                   \* all batches yielded since (re)creation, in order
          expect                 \* batches a restarted run has to reproduce (<<>> = free)

vars == <<n, bs, train, val, phase, remaining, yielded, visits, acc, log, expect>>

Range(s) == {s[i] : i \in DOMAIN s}
Injective(s) == \A i, j \in DOMAIN s : i # j => s[i] # s[j]
Min(a, b) == IF a < b THEN a ELSE b
CeilDiv(a, b) == (a + b - 1) \div b

\* an arbitrary per-pattern loss term (any injective-ish integer function will do)
L(i) == (i * i) + 1
RECURSIVE SumSeqL(_), SumSetL(_)
SumSeqL(B) == IF B = <<>> THEN 0 ELSE L(Head(B)) + SumSeqL(Tail(B))
SumSetL(S) == IF S = {} THEN 0 ELSE LET x == CHOOSE y \in S : TRUE IN L(x) + SumSetL(S \ {x})

Init ==
  /\ n = 0 /\ bs = 1 /\ train = {} /\ val = {} /\ phase = "none"
  /\ remaining = {} /\ yielded = 0 /\ log = <<>> /\ expect = <<>>
  /\ visits = [i \in 0..(MaxN - 1) |-> 0] /\ acc = 0

\* creation: any batch size, ANY partition of 0..n-1 into train and val
\* (a new batcher may be created between passes: every reconstruct() call does so; the
\* random stream - hence log/expect - continues across batchers)
RECURSIVE Sorted(_)
Sorted(S) == IF S = {} THEN <<>>
             ELSE LET m == CHOOSE x \in S : \A y \in S : x <= y IN <<m>> \o Sorted(S \ {m})
SplitEntry(T, V) == [k |-> "split", s |-> Sorted(T), v |-> Sorted(V)]
BatchEntry(B) == [k |-> "batch", s |-> B, v |-> <<>>]
Follows(e) ==  \* a restarted run reproduces the recorded one
  (Len(log) < Len(expect)) => e = expect[Len(log) + 1]

Create(nn, b, T, V) ==
  /\ phase \in {"none", "idle"}
  /\ nn \in 1..MaxN /\ b \in 1..MaxBS
  /\ T \cup V = 0..(nn - 1) /\ T \cap V = {}
  /\ Follows(SplitEntry(T, V))
  /\ n' = nn /\ bs' = b /\ train' = T /\ val' = V
  /\ phase' = "idle" /\ remaining' = {} /\ yielded' = 0 /\ visits' = [i \in 0..(MaxN - 1) |-> 0] /\ acc' = 0
  /\ log' = Append(log, SplitEntry(T, V)) /\ UNCHANGED expect

StartEpoch ==
  /\ phase = "idle"
  /\ phase' = "train" /\ remaining' = train /\ yielded' = 0 /\ visits' = [i \in 0..(MaxN - 1) |-> 0] /\ acc' = 0
  /\ UNCHANGED <<n, bs, train, val, log, expect>>

\* a batch is a sequence without repetitions of not-yet-visited patterns; all batches
\* but the last of the pass are full
BatchOK(B) ==
  /\ Injective(B) /\ Range(B) \subseteq remaining
  /\ Len(B) = Min(bs, Cardinality(remaining)) /\ Len(B) > 0

Yield(B) ==
  /\ phase = "train" /\ BatchOK(B) /\ Follows(BatchEntry(B))
  /\ remaining' = remaining \ Range(B) /\ yielded' = yielded + 1 /\ visits' = [i \in 0..(MaxN - 1) |-> IF i \in Range(B) THEN visits[i] + 1 ELSE visits[i]] /\ acc' = acc + SumSeqL(B)
  /\ log' = Append(log, BatchEntry(B))
  /\ UNCHANGED <<n, bs, train, val, phase, expect>>

\* the pass ends only when everything has been visited, and the reported length
\* (len(batcher)) must be the number of batches actually yielded
EndEpoch(reported) ==
  /\ phase = "train" /\ remaining = {} /\ reported = yielded
  /\ phase' = "idle"
  /\ UNCHANGED <<n, bs, train, val, remaining, yielded, visits, acc, log, expect>>

StartVal ==
  /\ phase = "idle"
  /\ phase' = "val" /\ remaining' = val /\ yielded' = 0 /\ visits' = [i \in 0..(MaxN - 1) |-> 0] /\ acc' = 0
  /\ UNCHANGED <<n, bs, train, val, log, expect>>

YieldVal(B) ==
  /\ phase = "val" /\ BatchOK(B)
  /\ remaining' = remaining \ Range(B) /\ yielded' = yielded + 1 /\ visits' = [i \in 0..(MaxN - 1) |-> IF i \in Range(B) THEN visits[i] + 1 ELSE visits[i]] /\ acc' = acc + SumSeqL(B)
  /\ UNCHANGED <<n, bs, train, val, phase, log, expect>>

EndVal(reported) ==
  /\ phase = "val" /\ remaining = {} /\ reported = yielded
  /\ phase' = "idle"
  /\ UNCHANGED <<n, bs, train, val, remaining, yielded, visits, acc, log, expect>>

\* the same run after a reset / a new run from the same seed: same split, and the
\* batches recorded so far must be reproduced
Restart ==
  /\ phase = "idle"
  /\ expect' = log /\ log' = <<>> /\ phase' = "none"
  /\ UNCHANGED <<n, bs, train, val, remaining, yielded, visits, acc>>

Next ==
  \/ \E nn \in 1..MaxN, b \in 1..MaxBS : \E T \in SUBSET (0..(nn - 1)) :
        Create(nn, b, T, (0..(nn - 1)) \ T)
  \/ StartEpoch \/ StartVal
  \/ \E B \in UNION {[1..k -> 0..(MaxN - 1)] : k \in 1..Min(MaxBS, MaxN)} : Yield(B) \/ YieldVal(B)
  \/ \E r \in 0..MaxN : EndEpoch(r) \/ EndVal(r)
  \/ Restart

Bound == Len(log) <= MaxLog /\ Len(expect) < MaxLog /\ TLCGet("level") <= MaxLevel
Spec == Init /\ [][Next]_vars

\* ---- negative controls (cfg overrides) -------------------------------------
\* a batch may revisit patterns already yielded in this pass
BadYield(B) ==
  /\ phase = "train" /\ Injective(B) /\ Range(B) \subseteq train /\ Len(B) = Min(bs, Cardinality(train))
  /\ Len(B) > 0 /\ remaining # {} /\ Follows(BatchEntry(B))
  /\ remaining' = remaining \ Range(B) /\ yielded' = yielded + 1 /\ visits' = [i \in 0..(MaxN - 1) |-> IF i \in Range(B) THEN visits[i] + 1 ELSE visits[i]] /\ acc' = acc + SumSeqL(B)
  /\ log' = Append(log, BatchEntry(B))
  /\ UNCHANGED <<n, bs, train, val, phase, expect>>
\* the reported length is computed from all patterns instead of the training set
BadEndEpoch(reported) ==
  /\ phase = "train" /\ remaining = {} /\ reported = CeilDiv(n, bs)
  /\ phase' = "idle" /\ yielded' = reported
  /\ UNCHANGED <<n, bs, train, val, remaining, visits, acc, log, expect>>

---------------------------------------------------------------------------
(* Properties *)

Partition == phase # "none" => (train \cap val = {} /\ train \cup val = 0..(n - 1))

\* what has been yielded in the current pass and what remains partition the pass's set
PassSet == IF phase = "val" THEN val ELSE train
VisitedOnce ==
  phase \in {"train", "val"} =>
    /\ remaining \subseteq PassSet
    /\ yielded = CeilDiv(Cardinality(PassSet) - Cardinality(remaining), bs)

\* nothing is visited twice, nothing outside the pass's set is visited, and when the pass
\* is over everything in the set has been visited exactly once
ExactlyOnce ==
  /\ \A i \in 0..(MaxN - 1) : visits[i] <= 1
  /\ phase \in {"train", "val"} => \A i \in 0..(MaxN - 1) : visits[i] = 1 => i \in PassSet
EpochComplete ==
  [][ (phase \in {"train", "val"} /\ phase' = "idle") =>
         \A i \in PassSet : visits[i] = 1 ]_vars

\* batch-mean invariance: a batch loss is the batch's sum scaled to the whole training set
\* (sum * |train| / |batch|).  When bs divides |train| the mean of the batch losses over the
\* epoch is the full-batch loss.  (Without the divisibility premise the claim is false:
\* negative control BatchMeanAlways.)
BatchMean ==
  [][ (phase = "train" /\ phase' = "idle" /\ Cardinality(train) % bs = 0 /\ train # {}) =>
        acc * Cardinality(train) = bs * yielded' * SumSetL(train) ]_vars
BatchMeanAlways ==
  [][ (phase = "train" /\ phase' = "idle" /\ train # {}) =>
        acc * Cardinality(train) = Min(bs, Cardinality(train)) * yielded' * SumSetL(train) ]_vars

\* at the end of a pass the reported length is ceil(|set| / bs)
LenMatches ==
  [][ (phase = "train" /\ phase' = "idle") => yielded' = CeilDiv(Cardinality(train), bs) ]_vars

\* a restarted run is a prefix-replay of the recorded one
Deterministic ==
  \A i \in 1..Min(Len(log), Len(expect)) : log[i] = expect[i]
=============================================================================
