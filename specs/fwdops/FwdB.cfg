SPECIFICATION Spec
CONSTANTS NY = 1
          NX = 1
          RY = 1
          RX = 1
          NPOS = 1
          Part = "B"
          MaxLen = 3
          ScatterBug = FALSE
INVARIANT StateIsSum
INVARIANT EmitB
