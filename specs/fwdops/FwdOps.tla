------------------------------- MODULE FwdOps -------------------------------
(***************************************************************************)
(* Forward-model operator identities (property C16).                       *)
(*                                                                         *)
(* Part A - index algebra, exact integers.  An object grid of NY x NX      *)
(* cells, patches of RY x RX cells extracted at integer positions with     *)
(* wrap-around (the patch index table of the library:                      *)
(*   idx[n, i, j] = ((r_n + fy(i)) mod NY) * NX + ((c_n + fx(j)) mod NX)   *)
(* with corner-centred offsets fy, fx).  Gather reads the object through   *)
(* the table, Scatter adds patch values back.  Adjoint:                    *)
(*   <Gather(o), p> = <o, Scatter(p)>   for all integer o, p.              *)
(*                                                                         *)
(* Part B - an abelian group action.  The abstract state of a wave is      *)
(* (shift in quarter pixels, propagation distance in units of dz); actions *)
(* Translate(v) and Propagate(k).  The specification says the concrete     *)
(* wave is a FUNCTION of the abstract state: any two action sequences      *)
(* reaching the same abstract state give the same array; an integer shift  *)
(* is a circular roll; the zero state is the input; total intensity is the *)
(* same in every state.  The replayer executes the exported walks with the *)
(* library's Fourier translation and Fresnel propagation and groups them   *)
(* by abstract end state.                                                  *)
(***************************************************************************)
EXTENDS Integers, Sequences, FiniteSets, TLC, Json

CONSTANTS NY, NX, RY, RX,     \* object grid and patch (ROI) shape
          NPOS,               \* number of patches
          Part,               \* "A" or "B"
          MaxLen,             \* walk length (part B)
          ScatterBug          \* negative control: scatter overwrites instead of accumulating

---------------------------------------------------------------------------
(* Part A *)
FFreq(i, n) == IF 2 * i < n + (n % 2) THEN i ELSE i - n       \* fftfreq index order 0,1,..,-2,-1
Cells == 0..((NY * NX) - 1)
PatchCells == 0..((RY * RX) - 1)
VARIABLES parA, walk, ashift, adist
vars == <<parA, walk, ashift, adist>>

Pos(n) == <<(parA.r0 + (parA.dr * n)) % NY, (parA.c0 + (parA.dc * n)) % NX>>
Idx(n, k) == LET i == k \div RX  j == k % RX IN
             (((Pos(n)[1] + FFreq(i, RY)) % NY) * NX) + ((Pos(n)[2] + FFreq(j, RX)) % NX)
Obj(cell) == 1 + (((parA.a * cell) + (cell * cell)) % 5)
Pat(n, k) == ((parA.b * (n + 1)) + (k * (n + 2))) % 4
Gather(n, k) == Obj(Idx(n, k))
Scatter(cell) ==
  LET F[t \in 0..(NPOS * RY * RX)] ==
        IF t = 0 THEN 0
        ELSE LET n == (t - 1) \div (RY * RX)  k == (t - 1) % (RY * RX) IN
             IF Idx(n, k) = cell THEN (IF ScatterBug THEN Pat(n, k) ELSE F[t - 1] + Pat(n, k)) ELSE F[t - 1]
  IN F[NPOS * RY * RX]
InnerPatch == LET F[t \in 0..(NPOS * RY * RX)] ==
                    IF t = 0 THEN 0 ELSE F[t - 1] + (Gather((t - 1) \div (RY * RX), (t - 1) % (RY * RX)) * Pat((t - 1) \div (RY * RX), (t - 1) % (RY * RX)))
              IN F[NPOS * RY * RX]
InnerObj == LET F[c \in 0..(NY * NX)] == IF c = 0 THEN 0 ELSE F[c - 1] + (Obj(c - 1) * Scatter(c - 1)) IN F[NY * NX]
Adjoint == Part = "A" => InnerPatch = InnerObj
\* every patch value lands somewhere: totals are conserved by Scatter
ScatterConserves == Part = "A" =>
   LET S[c \in 0..(NY * NX)] == IF c = 0 THEN 0 ELSE S[c - 1] + Scatter(c - 1)
       P[t \in 0..(NPOS * RY * RX)] == IF t = 0 THEN 0 ELSE P[t - 1] + Pat((t - 1) \div (RY * RX), (t - 1) % (RY * RX))
   IN S[NY * NX] = P[NPOS * RY * RX]

ParamsA == [r0 : {0, NY - 1}, c0 : {0, 1}, dr : {0, 1, 2}, dc : {0, 1}, a : {1, 2}, b : {1, 3}]

\* Detector centring.  fftshift moves index i of a corner-centred axis of length n to (i + n div 2) mod n;
\* its inverse (ifftshift) moves i to (i + n - n div 2) mod n.  The two are the same permutation exactly for
\* even n, so code that centres with fftshift must un-centre with ifftshift (the Fourier projection of the
\* pinned tree used fftshift twice: measured amplitudes rolled by one pixel for odd ROI sizes).
FftShift(i, n) == (i + (n \div 2)) % n
IfftShift(i, n) == (i + n - (n \div 2)) % n
CentringInverse == \A n \in 2..9 : \A i \in 0..(n - 1) :
                     /\ IfftShift(FftShift(i, n), n) = i
                     /\ (FftShift(FftShift(i, n), n) = i) <=> ((n % 2) = 0)

---------------------------------------------------------------------------
(* Part B *)
Steps == {<<"T", <<4, 0>>>>, <<"T", <<-4, 8>>>>, <<"T", <<1, 2>>>>, <<"T", <<-1, -2>>>>, <<"T", <<3, -2>>>>, <<"T", <<0, -4>>>>,
          <<"P", 1>>, <<"P", -1>>, <<"P", 2>>,
          \* propagation with a tilted beam: the wave also drifts sideways by Tilt per unit distance.  (In the
          \* replay these kernels are the entries of ONE multi-slice stack of unequal thicknesses, so "the kernel
          \* of a slice depends on its own thickness only" is part of what equal states demand.)
          <<"Q", 1>>, <<"Q", -1>>, <<"Q", 2>>}
Tilt == <<1, -2>>            \* quarter pixels per unit distance
Init == /\ parA \in (IF Part = "A" THEN ParamsA ELSE {[r0 |-> 0, c0 |-> 0, dr |-> 1, dc |-> 1, a |-> 1, b |-> 1]})
        /\ walk = <<>> /\ ashift = <<0, 0>> /\ adist = 0
Step == /\ Part = "B" /\ Len(walk) < MaxLen
        /\ \E st \in Steps :
             /\ walk' = Append(walk, st)
             /\ IF st[1] = "T" THEN ashift' = <<ashift[1] + st[2][1], ashift[2] + st[2][2]>> /\ adist' = adist
                ELSE IF st[1] = "P" THEN adist' = adist + st[2] /\ ashift' = ashift
                ELSE adist' = adist + st[2] /\ ashift' = <<ashift[1] + (st[2] * Tilt[1]), ashift[2] + (st[2] * Tilt[2])>>
        /\ UNCHANGED parA
Next == Step
Spec == Init /\ [][Next]_vars

\* the abstract state is the sum of the steps, in any order (abelian group)
RECURSIVE SumT(_), SumP(_)
SumT(w) == IF w = <<>> THEN <<0, 0>> ELSE LET r == SumT(Tail(w)) IN
           IF Head(w)[1] = "T" THEN <<Head(w)[2][1] + r[1], Head(w)[2][2] + r[2]>>
           ELSE IF Head(w)[1] = "Q" THEN <<(Head(w)[2] * Tilt[1]) + r[1], (Head(w)[2] * Tilt[2]) + r[2]>> ELSE r
SumP(w) == IF w = <<>> THEN 0 ELSE (IF Head(w)[1] \in {"P", "Q"} THEN Head(w)[2] ELSE 0) + SumP(Tail(w))
StateIsSum == Part = "B" => (ashift = SumT(walk) /\ adist = SumP(walk))

EmitA == (Part = "A") =>
   PrintT(<<"CASE", ToJson([ny |-> NY, nx |-> NX, ry |-> RY, rx |-> RX, npos |-> NPOS,
                            pos |-> [n \in 1..NPOS |-> Pos(n - 1)],
                            idx |-> [n \in 1..NPOS |-> [k \in 1..(RY * RX) |-> Idx(n - 1, k - 1)]],
                            obj |-> [c \in 1..(NY * NX) |-> Obj(c - 1)],
                            pat |-> [n \in 1..NPOS |-> [k \in 1..(RY * RX) |-> Pat(n - 1, k - 1)]],
                            gather |-> [n \in 1..NPOS |-> [k \in 1..(RY * RX) |-> Gather(n - 1, k - 1)]],
                            scatter |-> [c \in 1..(NY * NX) |-> Scatter(c - 1)]])>>)
EmitB == (Part = "B" /\ Len(walk) = MaxLen) =>
   PrintT(<<"CASE", ToJson([walk |-> walk, shift |-> ashift, dist |-> adist])>>)
=============================================================================
