SPECIFICATION Spec
CONSTANTS NY = 4
          NX = 5
          RY = 3
          RX = 2
          NPOS = 4
          Part = "A"
          MaxLen = 0
          ScatterBug = FALSE
INVARIANT Adjoint
INVARIANT ScatterConserves
INVARIANT CentringInverse
