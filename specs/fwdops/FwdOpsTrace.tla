----------------------------- MODULE FwdOpsTrace -----------------------------
(* C->S binding of the library's patch-index tables: tables recorded from the    *)
(* real dataset model (integer scan positions, object shape, ROI shape) must be  *)
(* exactly the table the specification defines (corner-centred offsets, wrap).   *)
EXTENDS Integers, Sequences, FiniteSets, TLC, Json, IOUtils

Tables == JsonDeserialize(IOEnv.TRACE_FILE)
FFreq(i, n) == IF 2 * i < n + (n % 2) THEN i ELSE i - n
IdxF(t, n, k) == LET i == (k - 1) \div t.rx  j == (k - 1) % t.rx IN
                 (((t.pos[n][1] + FFreq(i, t.ry)) % t.ny) * t.nx) + ((t.pos[n][2] + FFreq(j, t.rx)) % t.nx)
TableOK(t) == \A n \in DOMAIN t.idx : \A k \in DOMAIN t.idx[n] : t.idx[n][k] = IdxF(t, n, k)
VARIABLE done
Init == done = FALSE
Next == done' = TRUE
Spec == Init /\ [][Next]_done
AllOK == PrintT(<<"PROGRESS", [i \in DOMAIN Tables |-> IF TableOK(Tables[i]) THEN 1 ELSE 0]>>) /\ \A i \in DOMAIN Tables : TableOK(Tables[i])
=============================================================================
