SPECIFICATION Spec
POSTCONDITION AllOK
CHECK_DEADLOCK FALSE
