----------------------------- MODULE RadonRight -----------------------------
(***************************************************************************)
(* Radon transform and unfiltered back-projection at right angles          *)
(* (property C07, the exact sub-domain).                                   *)
(*                                                                         *)
(* For projection angles that are multiples of 90 degrees the rotation of  *)
(* the sampling grid maps pixel centres to pixel centres, so the bilinear  *)
(* interpolation of scikit-image's radon / of the torch port reads exactly *)
(* one pixel and the whole transform is integer arithmetic.  The model is  *)
(* written from scikit-image's conventions (the reference the property     *)
(* names):                                                                 *)
(*   radon, circle mode: the image is masked to the disc of radius N div 2 *)
(*     about the centre (C, C), C = N div 2; the projection at angle th is *)
(*     the column sum of the image rotated about (C, C): output pixel      *)
(*     (row i, column j) reads input                                       *)
(*        column  C + cos*(j-C) + sin*(i-C),  row  C - sin*(j-C) + cos*(i-C)*)
(*     and 0 outside the image;                                            *)
(*   iradon without a filter: pixel (r, c) accumulates, for every angle,   *)
(*     the projection sample at  t = (c-R)*cos - (r-R)*sin,  R = N div 2,  *)
(*     index t + N div 2, 0 outside; outside the disc of radius R the      *)
(*     result is 0; the sum is scaled by pi / (2 * number of angles)       *)
(*     (the scale stays symbolic: the model exports the integer sums).     *)
(* The pipeline is a state machine: Mask, one Project step per angle, one  *)
(* BackProject step per angle, Finish.                                     *)
(*                                                                         *)
(* Mirror = TRUE is the pinned-tree variant of the torch port (sampling    *)
(* grid reflected about the row C): harmless for odd N, drops one image    *)
(* row for even N.                                                         *)
(***************************************************************************)
EXTENDS Integers, Sequences, FiniteSets, TLC, Json

CONSTANTS N,          \* image size (square)
          MaxAngles,  \* angle sequences of length 1..MaxAngles over {0, 90, 180}
          Mirror,     \* negative control
          Record      \* TRUE: print every finished behaviour

C == N \div 2
Ix == 0..(N - 1)
Cos(th) == CASE th = 0 -> 1 [] th = 90 -> 0 [] th = 180 -> -1
Sin(th) == CASE th = 0 -> 0 [] th = 90 -> 1 [] th = 180 -> 0
InDisc(r, c) == ((r - C) * (r - C)) + ((c - C) * (c - C)) <= C * C

\* a small parametric family of non-negative integer images (not symmetric, with a bright off-centre pixel)
Pars == [a : {0, 1}, b : {1, 2}, d : {0, 3}, k : {0, 1, 2}]
Raw(p, r, c) == (((p.a * r) + (p.b * c) + (p.d * r * c) + 1) % 5) + (IF r = p.k /\ c = C THEN 7 ELSE 0)
                + (IF r = C /\ c = p.k THEN 4 ELSE 0)
Second(p, r, c) == (((2 * r) + c + p.k) % 3)          \* a second image, for linearity and the batched call

VARIABLES par, angles, img, img2, sino, sino2, bp, step, phase
vars == <<par, angles, img, img2, sino, sino2, bp, step, phase>>

RECURSIVE Sum(_, _)
Sum(f, S) == IF S = {} THEN 0 ELSE LET x == CHOOSE y \in S : TRUE IN f[x] + Sum(f, S \ {x})

\* one projection of a masked image m (function row -> column -> value)
Project1(m, th) ==
  [j \in Ix |->
     Sum([i \in Ix |->
            LET dj == j - C
                di == IF Mirror THEN -(i - C) ELSE i - C
                col == C + (Cos(th) * dj) + (Sin(th) * di)
                row == C - (Sin(th) * dj) + (Cos(th) * di)
            IN IF row \in Ix /\ col \in Ix THEN m[row][col] ELSE 0], Ix)]

\* contribution of one projection y (function index -> value) to the back-projection
Back1(y, th) ==
  [r \in Ix |-> [c \in Ix |->
     LET t == ((c - C) * Cos(th)) - ((r - C) * Sin(th)) + C
     IN IF t \in Ix THEN y[t] ELSE 0]]

AngleSeqs == UNION {[1..n -> {0, 90, 180}] : n \in 1..MaxAngles}
Zero2 == [r \in Ix |-> [c \in Ix |-> 0]]

Init == /\ par \in Pars /\ angles \in AngleSeqs
        /\ img = [r \in Ix |-> [c \in Ix |-> Raw(par, r, c)]]
        /\ img2 = [r \in Ix |-> [c \in Ix |-> Second(par, r, c)]]
        /\ sino = <<>> /\ sino2 = <<>> /\ bp = Zero2 /\ step = 0 /\ phase = "new"

Mask == /\ phase = "new"
        /\ img' = [r \in Ix |-> [c \in Ix |-> IF InDisc(r, c) THEN img[r][c] ELSE 0]]
        /\ img2' = [r \in Ix |-> [c \in Ix |-> IF InDisc(r, c) THEN img2[r][c] ELSE 0]]
        /\ phase' = "project" /\ step' = 1
        /\ UNCHANGED <<par, angles, sino, sino2, bp>>

Project == /\ phase = "project" /\ step <= Len(angles)
           /\ sino' = Append(sino, Project1(img, angles[step]))
           /\ sino2' = Append(sino2, Project1(img2, angles[step]))
           /\ IF step = Len(angles) THEN phase' = "back" /\ step' = 1 ELSE phase' = phase /\ step' = step + 1
           /\ UNCHANGED <<par, angles, img, img2, bp>>

\* the sinogram of the first image is back-projected without a filter
BackProject == /\ phase = "back" /\ step <= Len(angles)
               /\ bp' = [r \in Ix |-> [c \in Ix |-> bp[r][c] + Back1(sino[step], angles[step])[r][c]]]
               /\ IF step = Len(angles) THEN phase' = "finish" ELSE phase' = phase
               /\ step' = step + 1
               /\ UNCHANGED <<par, angles, img, img2, sino, sino2>>

Finish == /\ phase = "finish"
          /\ bp' = [r \in Ix |-> [c \in Ix |-> IF InDisc(r, c) THEN bp[r][c] ELSE 0]]
          /\ phase' = "done"
          /\ UNCHANGED <<par, angles, img, img2, sino, sino2, step>>

Next == Mask \/ Project \/ BackProject \/ Finish
Spec == Init /\ [][Next]_vars

---------------------------------------------------------------------------
Total(m) == Sum([r \in Ix |-> Sum([c \in Ix |-> m[r][c]], Ix)], Ix)
ColSum(m, c) == Sum([r \in Ix |-> m[r][c]], Ix)

\* "the projection at 0 degrees equals the column sums of the disc-masked image"
ZeroDegColumnSums ==
  \A k \in DOMAIN sino : angles[k] = 0 => \A j \in Ix : sino[k][j] = ColSum(img, j)

\* a right-angle projection keeps the mass of the masked image, except for the image line that the rotation
\* about (C, C) moves to index N when N is even (row 0 at 90 degrees, row 0 and column 0 at 180 degrees)
Lost(m, th) == IF (N % 2) = 1 \/ th = 0 THEN 0
               ELSE IF th = 90 THEN Sum([c \in Ix |-> m[0][c]], Ix)
               ELSE Sum([c \in Ix |-> m[0][c]], Ix) + Sum([r \in Ix |-> m[r][0]], Ix) - m[0][0]
MassKept ==
  \A k \in DOMAIN sino : Sum([j \in Ix |-> sino[k][j]], Ix) = Total(img) - Lost(img, angles[k])

\* back-projection is the adjoint of projection (both restricted to the disc):  <P x, y> = <x, B y>
\* checked with y = the projection of the second image at the same angle.  (For even N at 180 degrees the
\* reference conventions are NOT adjoint: the projection drops image row 0, the back-projection does not.)
Adjoint ==
  phase \in {"back", "finish", "done"} =>
    \A k \in {q \in DOMAIN sino : (N % 2) = 1 \/ angles[q] # 180} :
       LET y == sino2[k]
           lhs == Sum([j \in Ix |-> sino[k][j] * y[j]], Ix)
           b == Back1(y, angles[k])
           rhs == Sum([r \in Ix |-> Sum([c \in Ix |-> IF InDisc(r, c) THEN img[r][c] * b[r][c] ELSE 0], Ix)], Ix)
       IN lhs = rhs

\* repeated angles give repeated projections (a projection depends on its own angle only)
AngleOnly == \A k, l \in DOMAIN sino : angles[k] = angles[l] => sino[k] = sino[l]

Emit == (Record /\ phase = "done") =>
   PrintT(<<"CASE", ToJson([n |-> N, angles |-> angles,
                            img |-> [r \in 1..N |-> [c \in 1..N |-> Raw(par, r - 1, c - 1)]],
                            img2 |-> [r \in 1..N |-> [c \in 1..N |-> Second(par, r - 1, c - 1)]],
                            sino |-> [k \in DOMAIN sino |-> [j \in 1..N |-> sino[k][j - 1]]],
                            sino2 |-> [k \in DOMAIN sino2 |-> [j \in 1..N |-> sino2[k][j - 1]]],
                            bp |-> [r \in 1..N |-> [c \in 1..N |-> bp[r - 1][c - 1]]]])>>)
=============================================================================
