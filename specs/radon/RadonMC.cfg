SPECIFICATION Spec
CONSTANTS N = 4
          MaxAngles = 3
          Mirror = FALSE
          Record = FALSE
INVARIANT ZeroDegColumnSums
INVARIANT MassKept
INVARIANT Adjoint
INVARIANT AngleOnly
