SPECIFICATION Spec
CONSTANTS N = 4
          MaxAngles = 3
          Mirror = TRUE
          Record = FALSE
INVARIANT ZeroDegColumnSums
