SPECIFICATION Spec
CONSTANTS N = 3
          M = 3
          MaxSaves = 2
          Legacy = FALSE
          Record = FALSE
INVARIANT NoPartialLoadable
INVARIANT OnlyTarget
PROPERTY WriteOnce
