----------------------------- MODULE SaveFaults -----------------------------
(***************************************************************************)
(* Step-wise model of AutoSerialize.save with faults (property C08).       *)
(*                                                                         *)
(* The file system is three paths: the save target, a sibling that no save *)
(* may touch, and the temporary staging area.  A save is a sequence of     *)
(* small steps; an exception may strike between ANY two of them (action    *)
(* Fail).  The design being specified removes a partially written target   *)
(* when the save fails; CONSTANT Legacy = TRUE models the pinned tree,     *)
(* which leaves it behind.                                                 *)
(*                                                                         *)
(* Directory store:  Check -> [Remove] -> Mkdir -> Write_1..N -> Done      *)
(* Zip store:        Check -> [Remove] -> Stage_1..N (in temp) -> OpenZip  *)
(*                   -> Add_1..M -> CloseZip -> Done                       *)
(* A partial directory/zip is *loadable* as soon as its first step (the    *)
(* root group with the class marker) is present - that is what makes a     *)
(* left-behind partial target dangerous.                                   *)
(***************************************************************************)
EXTENDS Naturals, Sequences, FiniteSets, TLC, Json

CONSTANTS N,          \* write steps of one save (value/array/byte writes)
          M,          \* files added to the archive in the zip assembly
          MaxSaves,   \* number of consecutive saves explored
          Legacy,     \* TRUE: no clean-up after a failure (pinned tree)
          Record      \* TRUE: carry the scenario history and print it

Absent == [kind |-> "none", id |-> 0, done |-> 0, total |-> 0]
Foreign == [kind |-> "foreign", id |-> 0, done |-> 0, total |-> 0]
\* an unreadable directory without the root marker.  It exists before a save (a pre-existing
\* directory that is not an object) and it is what zarr's straggling writes leave behind: the writes
\* of one batch run concurrently on zarr's I/O thread, a failing one does not cancel its siblings,
\* and a sibling that lands after the clean-up re-creates part of the tree (never the root marker,
\* which is written on its own before any batch)
Junk(i) == [kind |-> "junk", id |-> i, done |-> 0, total |-> 0]
Content(kind, id, done, total) == [kind |-> kind, id |-> id, done |-> done, total |-> total]
Exists(c) == c.kind # "none"
Loadable(c) == c.kind \in {"dir", "zip"} /\ c.done >= 1
Complete(c) == c.kind \in {"dir", "zip"} /\ c.done = c.total

VARIABLES target, sibling, temp,   \* file system
          pc, store, mode, id,     \* the save in progress
          before,                  \* target content when the save began
          completed,               \* ids of saves that returned normally
          nsaves, hist
vars == <<target, sibling, temp, pc, store, mode, id, before, completed, nsaves, hist>>

Log(e) == hist' = IF Record THEN Append(hist, e) ELSE hist

Init ==
  /\ target \in {Absent, Foreign, Junk(0), Content("dir", 100, N, N), Content("zip", 100, M, M)}
  /\ sibling = Content("dir", 101, N, N) /\ temp = Absent
  /\ pc = "idle" /\ store = "dir" /\ mode = "w" /\ id = 0 /\ before = Absent
  /\ completed = {100, 101} /\ nsaves = 0 /\ hist = <<>>

Begin(s, m) ==
  /\ pc = "idle" /\ nsaves < MaxSaves
  /\ store' = s /\ mode' = m /\ id' = nsaves + 1 /\ nsaves' = nsaves + 1 /\ before' = target
  /\ pc' = "check"
  /\ Log([ev |-> "begin-" \o target.kind, store |-> s, mode |-> m, at |-> 0])
  /\ UNCHANGED <<target, sibling, temp, completed>>

\* write-once: an existing target makes mode 'w' raise before anything is touched
CheckExists ==
  /\ pc = "check"
  /\ IF Exists(target)
     THEN IF mode = "w"
          THEN pc' = "idle" /\ Log([ev |-> "exists", store |-> store, mode |-> mode, at |-> 0]) /\ UNCHANGED target
          ELSE pc' = "removed" /\ target' = Absent /\ UNCHANGED hist
     ELSE pc' = "removed" /\ UNCHANGED <<target, hist>>
  /\ UNCHANGED <<sibling, temp, store, mode, id, before, completed, nsaves>>

Mkdir ==
  /\ pc = "removed" /\ store = "dir"
  /\ target' = Content("dir", id, 0, N) /\ pc' = "writing"
  /\ UNCHANGED <<sibling, temp, store, mode, id, before, completed, nsaves, hist>>

Write ==
  /\ pc = "writing" /\ store = "dir" /\ target.done < N
  /\ target' = [target EXCEPT !.done = @ + 1]
  /\ UNCHANGED <<sibling, temp, pc, store, mode, id, before, completed, nsaves, hist>>

StartStage ==
  /\ pc = "removed" /\ store = "zip"
  /\ temp' = Content("dir", id, 0, N) /\ pc' = "staging"
  /\ UNCHANGED <<target, sibling, store, mode, id, before, completed, nsaves, hist>>

Stage ==
  /\ pc = "staging" /\ temp.done < N
  /\ temp' = [temp EXCEPT !.done = @ + 1]
  /\ UNCHANGED <<target, sibling, pc, store, mode, id, before, completed, nsaves, hist>>

OpenZip ==
  /\ pc = "staging" /\ temp.done = N
  /\ target' = Content("zip", id, 0, M) /\ pc' = "zipping"
  /\ UNCHANGED <<sibling, temp, store, mode, id, before, completed, nsaves, hist>>

AddFile ==
  /\ pc = "zipping" /\ target.done < M
  /\ target' = [target EXCEPT !.done = @ + 1]
  /\ UNCHANGED <<sibling, temp, pc, store, mode, id, before, completed, nsaves, hist>>

Done ==
  /\ \/ (pc = "writing" /\ target.done = N)
     \/ (pc = "zipping" /\ target.done = M)
  /\ temp' = Absent                       \* the staging directory is always removed
  /\ completed' = completed \cup {id} /\ pc' = "idle"
  /\ Log([ev |-> "ok", store |-> store, mode |-> mode, at |-> 0])
  /\ UNCHANGED <<target, sibling, store, mode, id, before, nsaves>>

\* an exception between any two steps.  `at` = number of steps of the current phase done.
Fail ==
  /\ pc \in {"removed", "writing", "staging", "zipping"}
  /\ \E left \in (IF Legacy \/ target.id # id THEN {target}          \* not ours (or no clean-up): untouched
                  ELSE IF store = "dir" /\ pc = "writing" /\ target.done >= 1
                       THEN {Absent, Junk(id)}                       \* clean-up, then possibly a straggler
                       ELSE {Absent}) :                              \* clean-up of OUR partial target
        /\ target' = left
        /\ LET at == IF pc = "staging" THEN temp.done ELSE target.done
               phase == pc
           IN Log([ev |-> "fail-" \o phase, store |-> store, mode |-> mode, at |-> at, left |-> left.kind])
  /\ temp' = Absent
  /\ pc' = "idle"
  /\ UNCHANGED <<sibling, store, mode, id, before, completed, nsaves>>

Next ==
  \/ \E s \in {"dir", "zip"}, m \in {"w", "o"} : Begin(s, m)
  \/ CheckExists \/ Mkdir \/ Write \/ StartStage \/ Stage \/ OpenZip \/ AddFile \/ Done \/ Fail
Spec == Init /\ [][Next]_vars

---------------------------------------------------------------------------
\* C08: when no save is running, anything loadable at the target is a complete object
\* written by a save that returned normally
NoPartialLoadable ==
  pc = "idle" => (Loadable(target) => (Complete(target) /\ target.id \in completed))

\* write-once: in mode 'w' an existing target is never modified, at any step
WriteOnce == [][ (pc # "idle" /\ mode = "w" /\ Exists(before)) => target' = target ]_vars

\* no save alters any path other than its target; temporaries are gone afterwards
OnlyTarget == sibling = Content("dir", 101, N, N) /\ (pc = "idle" => temp = Absent)

\* scenario export
EmitScenario ==
  (Record /\ pc = "idle" /\ nsaves = MaxSaves) =>
     PrintT(<<"CASE", ToJson([init |-> hist, final |-> target.kind])>>)
=============================================================================
