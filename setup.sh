#!/bin/sh
# Offline setup: nothing is compiled or fetched. Verifies the tools and parses every spec.
set -e
cd "$(dirname "$0")"
command -v java >/dev/null || { echo "java missing"; exit 1; }
test -f /opt/veriftools/tla/tla2tools.jar || { echo "tla2tools.jar missing"; exit 1; }
/venv/bin/python -c "import quantem, numpy, torch, zarr" || { echo "quantem not importable from /venv"; exit 1; }
mkdir -p evidence replays
fail=0
for f in specs/*/*.tla; do
  d=$(dirname "$f"); b=$(basename "$f")
  out=$(cd "$d" && java -cp /opt/veriftools/tla/tla2tools.jar:/opt/veriftools/tla/CommunityModules-deps.jar tla2sany.SANY "$b" 2>&1) || true
  if echo "$out" | grep -q -E "Semantic errors|Parse Error|Fatal errors|Could not|\*\*\* Errors"; then
    echo "SANY failed on $f"; echo "$out" | tail -20; fail=1
  fi
done
[ $fail -eq 0 ] && echo "setup ok"
exit $fail
