"""C01 — serializer round-trip fidelity.  Serializer.tla / SerializerMC.tla (S->C)."""
from __future__ import annotations

import json
import os
import random
import re

from harness.common import tlc
from harness.common.par import pmap
from harness.common.tlc import MachineryError

SPEC = os.path.join(tlc.SPECS, "serializer")
NEGS = ["set", "zerod", "rootmeta", "dillcont", "npcomplex"]


def finding_key(pid, kind, msg, case):
    """Identify the specific failing input class of a mismatch."""
    kinds = set(re.findall(r'"k": "(\w+)"', json.dumps(case["o"])))
    m = msg
    if "expected set, got list" in m:
        return f"{pid}:set-loads-as-list"
    if "_autoserialize_skip_names" in m:
        return f"{pid}:root-gains-skip-metadata-attrs"
    if "array content differs" in m and "arr" in kinds and re.search(r"shape|content", m) and \
            '"s": "0d"' in json.dumps(case["o"]):
        return f"{pid}:0d-array-content-lost"
    if "not JSON serializable" in m:
        return f"{pid}:numpy-complex-scalar-save-raises"
    if "expected (1+2j) (complex), got array" in m or ("complex" in kinds and "got array" in m):
        return f"{pid}:dill-fallback-in-container-loads-as-bytes"
    return f"{pid}:{kind}"


def model_check(rep, universe, label):
    import tempfile, shutil
    tmp = tempfile.mkdtemp(prefix="ser_")
    try:
        c = tlc.cfg_variant(os.path.join(SPEC, "SerializerMC.cfg"), tmp, "mc.cfg",
                            {"Universe": f'"{universe}"'})
        r = tlc.run_tlc("SerializerMC", c, spec_dir=SPEC, workers=16, timeout=3000)
        rep.add_tlc(r, label)
        tlc.expect_clean(r, "SerializerMC")
        for n in NEGS:
            rn = tlc.run_tlc("SerializerMC", f"SerializerNEG_{n}.cfg", spec_dir=SPEC, workers=8,
                             timeout=900)
            tlc.expect_violation(rn, f"SerializerNEG_{n}")
        rep.note("negative_controls", [f"SerializerNEG_{n}" for n in NEGS])
        g = tlc.cfg_variant(os.path.join(SPEC, "SerializerGEN.cfg"), tmp, "gen.cfg",
                            {"Universe": f'"{universe}"'})
        rg = tlc.run_tlc("SerializerMC", g, spec_dir=SPEC, workers=1, timeout=3000)
        tlc.expect_clean(rg, "SerializerGEN")
        if not rg.cases:
            raise MachineryError("no cases exported")
        return rg.cases
    finally:
        shutil.rmtree(tmp, ignore_errors=True)


def run_cases(rep, pid, cases, ncfg, procs=16):
    from harness.serial_run import run_case
    res = pmap(run_case, [(c, i, ncfg) for i, c in enumerate(cases)], procs=procs, chunk=16)
    for c, out in zip(cases, res):
        rep.add_traces(1)
        rep.add_eval(ncfg)
        rep.add_distinct([c["o"], c["skN"], c["skT"]])
        seen = set()
        for kind, msg in out:
            key = finding_key(pid, kind, msg, c)
            if key in seen:
                continue
            seen.add(key)
            rep.mismatch(key, msg, {"case": c, "kind": kind, "message": msg})


def _hist_values():
    import numpy as np
    from harness.sclasses import Inner, Root
    return {1: lambda: Root(a=1, b=[1, "x", 2.5], n=np.arange(3), child=Inner(x=(1, 2))),
            2: lambda: Root(a="two", c={"k": 2.5, "m": [3]}, n=np.arange(4) * 2.0)}


def _same_simple(got, want):
    import numpy as np
    if type(got) is not type(want):
        return False
    if hasattr(want, "__dict__") and not isinstance(want, np.ndarray):
        a = {k: v for k, v in vars(got).items() if not k.startswith("_autoserialize")}
        b = {k: v for k, v in vars(want).items() if not k.startswith("_autoserialize")}
        return set(a) == set(b) and all(_same_simple(a[k], b[k]) for k in b)
    if isinstance(want, np.ndarray):
        return got.dtype == want.dtype and got.shape == want.shape and np.array_equal(got, want)
    if isinstance(want, dict):
        return set(got) == set(want) and all(_same_simple(got[k], want[k]) for k in want)
    if isinstance(want, (list, tuple)):
        return len(got) == len(want) and all(_same_simple(x, y) for x, y in zip(got, want))
    return got == want


def history_case(arg):
    """SerializerHistory.tla: saves and loads of two objects on one path, spelled as str or pathlib.Path."""
    import contextlib
    import io
    import pathlib
    import shutil
    import tempfile
    import warnings
    hist, idx = arg
    warnings.filterwarnings("ignore")
    from harness.zarr_util import reset_after_fork
    from quantem.core.io.serialize import load
    reset_after_fork()
    out = []
    store = ("zip", "dir")[idx % 2]
    tmp = tempfile.mkdtemp(prefix="c01h_")
    vals = _hist_values()
    try:
        base = os.path.join(tmp, "t.zip" if store == "zip" else "t")
        for k, ev in enumerate(hist):
            tgt = pathlib.Path(base) if ev["sp"] == "Path" else base
            tag = f"[{store} event {k}: {ev['op']} {'v%d ' % ev['v'] if ev['op'] == 'save' else ''}{ev['sp']} {ev['mode']}]"
            raised, got = None, None
            try:
                with contextlib.redirect_stdout(io.StringIO()):
                    if ev["op"] == "save":
                        vals[ev["v"]]().save(tgt, mode=ev["mode"], store=store)
                    else:
                        got = load(tgt)
            except Exception as ex:  # noqa: BLE001
                raised = ex
            if bool(ev["ok"]) != (raised is None):
                out.append(("history:error", f"{tag} model ok={ev['ok']}, real {'raised ' + type(raised).__name__ if raised else 'returned'}"))
                break
            if ev["op"] == "save" and not ev["ok"] and not isinstance(raised, FileExistsError):
                out.append(("history:error", f"{tag} expected FileExistsError, got {type(raised).__name__}"))
                break
            if ev["op"] == "load" and ev["ok"] and not _same_simple(got, vals[ev["ret"]]()):
                out.append(("history:stale-load", f"{tag} load does not return the object of the last successful save (v{ev['ret']}): "
                            f"got attributes {sorted(k for k in vars(got) if not k.startswith('_autoserialize'))}"))
                break
    finally:
        shutil.rmtree(tmp, ignore_errors=True)
    return out


def history_check(rep, quick, seed):
    from harness.common import tlc
    spec = os.path.join(tlc.SPECS, "serializer")
    r = tlc.run_tlc("SerializerHistory", "HistoryMC.cfg", spec_dir=spec, workers=8, timeout=600)
    rep.add_tlc(r, "SerializerHistory: LoadReturnsLastSaved / WriteOnce (histories of 5 calls)")
    tlc.expect_clean(r, "HistoryMC")
    rn = tlc.run_tlc("SerializerHistory", "HistoryNEG.cfg", spec_dir=spec, workers=8, timeout=600)
    tlc.expect_violation(rn, "HistoryNEG (cache keyed by the path spelling)", "LoadReturnsLastSaved")
    g = tlc.run_tlc("SerializerHistory", "HistoryGEN.cfg", spec_dir=spec, workers=1, timeout=900)
    tlc.expect_clean(g, "HistoryGEN")
    hists = g.cases
    if not hists:
        raise MachineryError("no histories exported")
    total = len(hists)
    random.Random(seed).shuffle(hists)

    def overwritten_between_loads(h):
        """a load, then a successful save of ANOTHER object, then a load again: the histories in which a stale
        answer could show (by spelling of the two loads)."""
        for i, e in enumerate(h):
            if e["op"] == "load" and e["ok"]:
                for j in range(i + 1, len(h)):
                    if h[j]["op"] == "save" and h[j]["ok"] and h[j]["v"] != e["ret"]:
                        for k in range(j + 1, len(h)):
                            if h[k]["op"] == "load":
                                return (e["sp"], h[j]["sp"], h[j]["mode"], h[k]["sp"])
        return None
    if quick:
        seen, first, rest = {}, [], []
        for h in hists:
            key = overwritten_between_loads(h)
            if key is not None and seen.get(key, 0) < 12:
                seen[key] = seen.get(key, 0) + 1
                first.append(h)
            else:
                rest.append(h)
        hists = first + rest[: max(0, 400 - len(first))]
    rep.note("histories", {"enumerated": total, "replayed": len(hists)})
    res = pmap(history_case, [(h, i) for i, h in enumerate(hists)], procs=16, chunk=16)
    for h, probs in zip(hists, res):
        rep.add_traces(1)
        rep.add_eval(len(h))
        rep.add_distinct([(e["op"], e["v"], e["sp"], e["mode"]) for e in h])
        for kind, msg in probs:
            rep.mismatch(f"C01:{kind}", msg, {"history": h, "message": msg})


def check(rep, tier, seed):
    quick = tier == "quick"
    rep.assume("attribute names / dict keys are free of '/' and of the reserved metadata names",
               "integers inside all-numeric sequences fit int64; NumPy scalars and all-numeric "
               "sequences are compared by numeric value; generators/loggers by kind and only as "
               "attributes (not inside containers)",
               "byte-exactness of zarr/Blosc/torch pickling itself is trusted",
               "object-dtype arrays and non-leaf tensors are outside the supported kinds")
    cases = model_check(rep, "small" if quick else "full", "Serializer round-trip/fixed-point/skip laws")
    cases = [c for c in cases if not c["skN"] and not c["skT"]]
    total = len(cases)
    if quick:
        # stratified: every "long sequence" graph and every leaf kind, then a seeded sample
        def prio(c):
            j = json.dumps(c["o"])
            return j.count('"k": "int"') >= 8 or len(j) < 420
        must = [c for c in cases if prio(c)]
        rest = [c for c in cases if not prio(c)]
        random.Random(seed).shuffle(rest)
        cases = must + rest[:max(0, 450 - len(must))]
    rep.note("exported_cases", {"total": total, "replayed": len(cases)})
    rep.sample({"abstract_case": cases[0]["o"], "expected": cases[0]["expect"]})
    rep.sample({"abstract_case": cases[len(cases) // 2]["o"]})
    run_cases(rep, "C01", cases, 2 if quick else 3)
    history_check(rep, quick, seed)
    rule = ("object graphs are the initial states of SerializerMC exported by TLC; each is "
            "instantiated with concrete payloads (dtype/shape variants by case index), saved and "
            "loaded under 2-3 store/compression/path-type/mode configurations, re-saved and "
            "re-loaded, and compared with the model's Load(Save(g)); plus histories of SerializerHistory.tla (4 saves / "
            "loads of two objects on one path, str / Path spelling, both modes, both stores); distinct by abstract graph / history")
    return rule, not quick


def replay(path):
    from harness.serial_run import run_case
    body = json.load(open(path))
    if "history" in body["replay"]:
        out = history_case((body["replay"]["history"], 0)) + history_case((body["replay"]["history"], 1))
        for o in out:
            print(o)
        return 1 if out else 0
    out = run_case((body["replay"]["case"], 0, 4))
    print(json.dumps(body["replay"]["case"]["o"])[:800])
    for o in out:
        print(o)
    return 1 if out else 0
