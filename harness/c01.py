"""C01 — serializer round-trip fidelity.  Serializer.tla / SerializerMC.tla (S->C)."""
from __future__ import annotations

import json
import os
import random
import re

from harness.common import tlc
from harness.common.par import pmap
from harness.common.tlc import MachineryError

SPEC = os.path.join(tlc.SPECS, "serializer")
NEGS = ["set", "zerod", "rootmeta", "dillcont", "npcomplex"]


def finding_key(pid, kind, msg, case):
    """Identify the specific failing input class of a mismatch."""
    kinds = set(re.findall(r'"k": "(\w+)"', json.dumps(case["o"])))
    m = msg
    if "expected set, got list" in m:
        return f"{pid}:set-loads-as-list"
    if "_autoserialize_skip_names" in m:
        return f"{pid}:root-gains-skip-metadata-attrs"
    if "array content differs" in m and "arr" in kinds and re.search(r"shape|content", m) and \
            '"s": "0d"' in json.dumps(case["o"]):
        return f"{pid}:0d-array-content-lost"
    if "not JSON serializable" in m:
        return f"{pid}:numpy-complex-scalar-save-raises"
    if "expected (1+2j) (complex), got array" in m or ("complex" in kinds and "got array" in m):
        return f"{pid}:dill-fallback-in-container-loads-as-bytes"
    return f"{pid}:{kind}"


def model_check(rep, universe, label):
    import tempfile, shutil
    tmp = tempfile.mkdtemp(prefix="ser_")
    try:
        c = tlc.cfg_variant(os.path.join(SPEC, "SerializerMC.cfg"), tmp, "mc.cfg",
                            {"Universe": f'"{universe}"'})
        r = tlc.run_tlc("SerializerMC", c, spec_dir=SPEC, workers=16, timeout=3000)
        rep.add_tlc(r, label)
        tlc.expect_clean(r, "SerializerMC")
        for n in NEGS:
            rn = tlc.run_tlc("SerializerMC", f"SerializerNEG_{n}.cfg", spec_dir=SPEC, workers=8,
                             timeout=900)
            tlc.expect_violation(rn, f"SerializerNEG_{n}")
        rep.note("negative_controls", [f"SerializerNEG_{n}" for n in NEGS])
        g = tlc.cfg_variant(os.path.join(SPEC, "SerializerGEN.cfg"), tmp, "gen.cfg",
                            {"Universe": f'"{universe}"'})
        rg = tlc.run_tlc("SerializerMC", g, spec_dir=SPEC, workers=1, timeout=3000)
        tlc.expect_clean(rg, "SerializerGEN")
        if not rg.cases:
            raise MachineryError("no cases exported")
        return rg.cases
    finally:
        shutil.rmtree(tmp, ignore_errors=True)


def run_cases(rep, pid, cases, ncfg, procs=16):
    from harness.serial_run import run_case
    res = pmap(run_case, [(c, i, ncfg) for i, c in enumerate(cases)], procs=procs, chunk=16)
    for c, out in zip(cases, res):
        rep.add_traces(1)
        rep.add_eval(ncfg)
        rep.add_distinct([c["o"], c["skN"], c["skT"]])
        seen = set()
        for kind, msg in out:
            key = finding_key(pid, kind, msg, c)
            if key in seen:
                continue
            seen.add(key)
            rep.mismatch(key, msg, {"case": c, "kind": kind, "message": msg})


def check(rep, tier, seed):
    quick = tier == "quick"
    rep.assume("attribute names / dict keys are free of '/' and of the reserved metadata names",
               "integers inside all-numeric sequences fit int64; NumPy scalars and all-numeric "
               "sequences are compared by numeric value; generators/loggers by kind and only as "
               "attributes (not inside containers)",
               "byte-exactness of zarr/Blosc/torch pickling itself is trusted",
               "object-dtype arrays and non-leaf tensors are outside the supported kinds")
    cases = model_check(rep, "small" if quick else "full", "Serializer round-trip/fixed-point/skip laws")
    cases = [c for c in cases if not c["skN"] and not c["skT"]]
    total = len(cases)
    if quick:
        # stratified: every "long sequence" graph and every leaf kind, then a seeded sample
        def prio(c):
            j = json.dumps(c["o"])
            return j.count('"k": "int"') >= 8 or len(j) < 420
        must = [c for c in cases if prio(c)]
        rest = [c for c in cases if not prio(c)]
        random.Random(seed).shuffle(rest)
        cases = must + rest[:max(0, 450 - len(must))]
    rep.note("exported_cases", {"total": total, "replayed": len(cases)})
    rep.sample({"abstract_case": cases[0]["o"], "expected": cases[0]["expect"]})
    rep.sample({"abstract_case": cases[len(cases) // 2]["o"]})
    run_cases(rep, "C01", cases, 2 if quick else 3)
    rule = ("object graphs are the initial states of SerializerMC exported by TLC; each is "
            "instantiated with concrete payloads (dtype/shape variants by case index), saved and "
            "loaded under 2-3 store/compression/path-type/mode configurations, re-saved and "
            "re-loaded, and compared with the model's Load(Save(g)); distinct by abstract graph")
    return rule, not quick


def replay(path):
    from harness.serial_run import run_case
    body = json.load(open(path))
    out = run_case((body["replay"]["case"], 0, 4))
    print(json.dumps(body["replay"]["case"]["o"])[:800])
    for o in out:
        print(o)
    return 1 if out else 0
