"""C05 — checkpoint / resume equivalence.  PtychoLifecycle.tla (S->C, twin runs).

TLC checks FamilyAgree / ReloadRestores / LrHistoryComplete over all programs of <= 3
reconstruct calls (reset, new optimizers, schedulers, constraints, 1-2 iterations) with up to
two interruptions (zip, dir, clone) between calls, and rejects three wrong Restore variants.
Exported behaviours are replayed on the tiny synthetic dataset: an uninterrupted twin and the
interrupted process receive the same calls; after every event the discrete projection of
both is compared with the model's post-state and the numeric state of twin and interrupted
process (losses, lr history, object, probe) with each other.
"""
from __future__ import annotations

import contextlib
import io
import json
import os
import random
import shutil
import tempfile
import warnings

import numpy as np

from harness.common import tlc
from harness.common.par import pmap
from harness.common.tlc import MachineryError

SPEC = os.path.join(tlc.SPECS, "lifecycle")
LR = {1: 5e-3, 2: 1e-3, 3: 2e-2}
# every fifth behaviour spells the largest rate as the Python int 1 (users write lr=1): the learning-rate history
# then starts with an int and continues with floats
LR_INT = {1: 5e-3, 2: 1e-3, 3: 1}
_lr_table = [LR]
KEYS = ("object", "probe")


def kwargs_of(c):
    kw = {"num_iters": int(c["n"]), "batch_size": None}
    if c["reset"]:
        kw["reset"] = True
    optp = c["optp"] if isinstance(c["optp"], dict) else {}
    if optp:
        kw["optimizer_params"] = {k: ({"type": v["type"], "lr": _lr_table[0][v["lr"]]} if v["type"] != "none"
                                      else {"type": "none"}) for k, v in optp.items()}
    if not c["skeep"]:
        sp = c["schedp"] if isinstance(c["schedp"], dict) else {}
        # "linzero": the library's linear schedule from the full rate down to exactly 0 at the end of this call
        kw["scheduler_params"] = {k: ({"type": t} if t != "linzero" else
                                      {"type": "linear", "start_factor": 1.0, "end_factor": 0.0}) for k, t in sp.items()}
    if c["cons"] == "tv":
        kw["constraints"] = {"object": {"tv_weight_xy": 1e-3}}
    return kw


def lr_value(tok):
    """numeric learning rate predicted from the model's token (exp / linear / none)."""
    if tok["lr"] == 0:
        return 0.0
    if tok.get("dbl"):
        return None     # second scheduler on the same optimizer: lr rescaled at construction
    base = _lr_table[0][tok["lr"]]
    if tok["sch"] == "none":
        return base
    if tok["sch"] == "exp":
        gamma = 0.01 ** (1.0 / tok["total"]) if tok["total"] else 0.9
        return base * gamma ** tok["e"]
    if tok["sch"] == "linear":
        T = tok["total"]
        if not T:
            return None
        return base * (0.1 + 0.9 * min(tok["e"], T) / T)
    if tok["sch"] == "linzero":
        T = tok["total"]
        if not T:
            return None
        return base * (1.0 - min(tok["e"], T) / T)
    return None     # plateau: depends on the loss, only twin-vs-run compared


def opt_steps(opt):
    import torch
    steps = [int(s["step"]) if not isinstance(s["step"], torch.Tensor) else int(s["step"].item())
             for s in opt.state.values() if "step" in s]
    return max(steps) if steps else None


def project_check(p, post, who):
    """Compare the discrete projection of a real Ptychography with the model state."""
    import torch
    if int(p.num_iters) != post["iters"]:
        return f"{who}: num_iters {p.num_iters} != {post['iters']}"
    if len(p.iter_losses) != post["iters"]:
        return f"{who}: len(iter_losses) {len(p.iter_losses)} != {post['iters']}"
    lrs = p.iter_lrs
    mlrs = post["lrs"] if isinstance(post["lrs"], dict) else {}
    if set(lrs) != set(mlrs):
        return f"{who}: iter_lrs keys {sorted(lrs)} != {sorted(mlrs)}"
    for k in mlrs:
        if len(lrs[k]) != len(mlrs[k]):
            return f"{who}: len(iter_lrs[{k}]) {len(lrs[k])} != {len(mlrs[k])}"
        theta = post.get("theta") or []
        aligned = len(theta) == len(mlrs[k])
        for i, tok in enumerate(mlrs[k]):
            want = lr_value(tok)
            if want is not None and tok["sch"] == "none" and tok["lr"] != 0:
                # an optimizer that HAD a scheduler keeps the last scheduled lr when the scheduler is dropped
                # (torch leaves param_groups['lr'] as the scheduler set it): back to the start of this optimizer
                # generation, the value is the base lr only if no scheduler token precedes it; otherwise it is
                # unknown at the first scheduler-less iteration and constant afterwards
                j = i
                while j > 0 and aligned and theta[j]["gens"].get(k) == theta[j - 1]["gens"].get(k) \
                        and mlrs[k][j - 1]["lr"] != 0:
                    j -= 1
                had = (not aligned) or any(mlrs[k][q]["sch"] != "none" for q in range(j, i))
                if had:
                    want = float(lrs[k][i - 1]) if (aligned and i > j and mlrs[k][i - 1]["sch"] == "none") else None
            if want is not None and abs(float(lrs[k][i]) - want) > 1e-9 + 1e-6 * abs(want):
                return f"{who}: iter_lrs[{k}][{i}] = {float(lrs[k][i])} != {want} ({tok})"
    opts = p.optimizers
    for k in KEYS:
        mo = post["opt"][k]
        if (k in opts) != (mo["type"] != "none"):
            return f"{who}: optimizer[{k}] present={k in opts}, model type {mo['type']}"
        if k in opts:
            tname = type(opts[k]).__name__.lower()
            if tname != mo["type"]:
                return f"{who}: optimizer[{k}] is {tname}, model {mo['type']}"
            st = opt_steps(opts[k])
            if st is not None and st != mo["steps"]:
                return f"{who}: optimizer[{k}] step counter {st} != {mo['steps']}"
        ms = post["sched"][k]
        sch = p.schedulers.get(k)
        if (sch is not None) != (ms["type"] != "none"):
            return f"{who}: scheduler[{k}] present={sch is not None}, model type {ms['type']}"
        if sch is not None and not isinstance(sch, torch.optim.lr_scheduler.ReduceLROnPlateau):
            if int(sch.last_epoch) != ms["e"]:
                return f"{who}: scheduler[{k}].last_epoch {sch.last_epoch} != {ms['e']}"
    tv = p.constraints["object"].get("tv_weight_xy", 0)
    if (tv != 0) != (post["cons"] == "tv"):
        return f"{who}: constraints tv_weight_xy={tv}, model cons={post['cons']}"
    return None


def numeric_equal(a, b):
    la, lb = np.asarray(a.iter_losses, float), np.asarray(b.iter_losses, float)
    if la.shape != lb.shape or not np.allclose(la, lb, rtol=2e-4, atol=1e-9):
        return f"loss histories differ: {la.tolist()} vs {lb.tolist()}"
    for k in set(a.iter_lrs) | set(b.iter_lrs):
        if k not in a.iter_lrs or k not in b.iter_lrs or \
                not np.allclose(np.asarray(a.iter_lrs[k], float), np.asarray(b.iter_lrs[k], float), rtol=1e-6, atol=1e-12):
            return f"lr histories differ for {k}: {a.iter_lrs.get(k)} vs {b.iter_lrs.get(k)}"
    oa, ob = a.obj_model.obj.detach().cpu().numpy(), b.obj_model.obj.detach().cpu().numpy()
    if oa.shape != ob.shape or not np.allclose(oa, ob, rtol=2e-4, atol=2e-5):
        return f"objects differ (max abs diff {np.abs(oa - ob).max():.3g})"
    pa, pb = a.probe_model.probe.detach().cpu().numpy(), b.probe_model.probe.detach().cpu().numpy()
    if pa.shape != pb.shape or not np.allclose(pa, pb, rtol=2e-4, atol=2e-5 * max(1.0, np.abs(pa).max())):
        return f"probes differ (max abs diff {np.abs(pa - pb).max():.3g})"
    return None


def replay_behaviour(arg):
    hist, idx = arg
    from harness.common import tiny_ptycho as tp
    from harness.zarr_util import reset_after_fork
    from quantem.diffractive_imaging.ptychography import Ptychography
    reset_after_fork()
    warnings.filterwarnings("ignore")
    problems = []
    _lr_table[0] = LR_INT if idx % 5 == 4 else LR
    variants = [("complex", 1, 1), ("pure_phase", 1, 2), ("potential", 2, 1), ("complex", 2, 2)]
    obj_type, nslices, nmodes = variants[idx % len(variants)]
    sim = tp.simulate(gpts=(3, 3), roi=(8, 8), num_slices=nslices, num_probe_modes=nmodes,
                      obj_type=obj_type, seed=5 + idx % 3)
    sink = io.StringIO()
    tmp = tempfile.mkdtemp(prefix="c05_")
    # clone() stages through tempfile.gettempdir()/ptycho_clone_<draw from the object's seeded rng>.zip: parallel
    # workers replaying behaviours with the same seed would collide on that name (an artefact of running the
    # harness in parallel, not part of the property), so every behaviour gets a private temporary directory
    old_tmpdir = tempfile.tempdir
    tempfile.tempdir = tmp
    try:
        with contextlib.redirect_stdout(sink):
            twin = tp.build(sim, perturb=0.05, rng=11)
            run = tp.build(sim, perturb=0.05, rng=11)
        nint = 0
        for k, ev in enumerate(hist):
            tag = f"[event {k} {ev['ev']} {ev['kind']} {obj_type} slices={nslices} modes={nmodes}]"
            try:
                with contextlib.redirect_stdout(sink):
                    if ev["ev"] == "call":
                        kw = kwargs_of(ev["c"])
                        twin.reconstruct(**json.loads(json.dumps(kw)))
                        run.reconstruct(**json.loads(json.dumps(kw)))
                    else:
                        nint += 1
                        before = run
                        if ev["kind"] == "clone":
                            run = run.clone()
                        else:
                            path = os.path.join(tmp, f"ck{nint}.zip" if ev["kind"] == "zip" else f"ck{nint}")
                            run.save(path, store=ev["kind"], save_raw_data=True, verbose=0)
                            run = Ptychography.from_file(path, auto_reload_dataset=False, verbose=0)
                        if run is before:
                            problems.append(("C05:interrupt:same-object", f"{tag} returned the same object"))
                        m = numeric_equal(before, run)
                        if m:
                            problems.append((f"C05:reload-restores:{ev['kind']}", f"{tag} reloaded/cloned state differs "
                                                                                  f"from the saved one: {m}"))
                            return problems
            except Exception as ex:  # noqa: BLE001
                problems.append((f"C05:{ev['ev']}:{ev['kind'] or 'reconstruct'}:raised",
                                 f"{tag} {type(ex).__name__}: {str(ex)[:200]}"))
                return problems
            for who, p in (("interrupted", run), ("twin", twin)):
                if who == "twin" and ev["ev"] != "call":
                    continue
                m = project_check(p, ev["post"], who)
                if m:
                    problems.append((f"C05:projection:{who}:{ev['ev']}{':' + ev['kind'] if ev['kind'] else ''}", f"{tag} {m}"))
                    return problems
            m = numeric_equal(twin, run)
            if m:
                problems.append((f"C05:resume-equivalence:{'after-' + ev['kind'] if ev['kind'] else 'call'}",
                                 f"{tag} interrupted process differs from the uninterrupted twin: {m}"))
                return problems
    finally:
        tempfile.tempdir = old_tmpdir
        shutil.rmtree(tmp, ignore_errors=True)
    return problems


def check(rep, tier, seed):
    quick = tier == "quick"
    rep.assume("full-batch updates (mini-batch order is re-seeded on load, outside the claim)",
               "saving together with its raw data (save_raw_data=True); CPU only",
               "numeric comparison twin vs interrupted: rtol 2e-4 (float32)",
               "scheduler_params are given together with new optimizers or after a reset")
    r = tlc.run_tlc("PtychoLifecycle", "LifecycleMC.cfg", spec_dir=SPEC, workers=16, timeout=900)
    rep.add_tlc(r, "PtychoLifecycle: FamilyAgree / ReloadRestores")
    tlc.expect_clean(r, "LifecycleMC")
    for b in ("optsteps", "lrhist", "schedepoch"):
        rn = tlc.run_tlc("PtychoLifecycle", f"LifecycleNEG_{b}.cfg", spec_dir=SPEC, workers=8, timeout=600)
        tlc.expect_violation(rn, f"LifecycleNEG_{b}")
    rep.note("negative_controls", ["LifecycleNEG_optsteps", "LifecycleNEG_lrhist", "LifecycleNEG_schedepoch"])
    g = tlc.run_tlc("PtychoLifecycle", "LifecycleGEN.cfg", spec_dir=SPEC, workers=1, timeout=1800)
    tlc.expect_clean(g, "LifecycleGEN")
    hists = [h for h in g.cases if any(e["ev"] == "interrupt" for e in h)]
    total = len(hists)
    random.Random(seed).shuffle(hists)
    # stratified: every (interruption kind, optimizer types, scheduler types, epochs scheduled so far > 0) that is
    # followed by a plain continuation is replayed at least once (quick) / three times before the rest of the budget is spent at random
    def strata(h):
        out = set()
        for i, e in enumerate(h):
            if e["ev"] != "interrupt":
                continue
            nxt = next((x for x in h[i + 1:] if x["ev"] == "call"), None)
            cont = nxt is not None and not nxt["c"]["reset"] and not (isinstance(nxt["c"]["optp"], dict) and nxt["c"]["optp"])
            p = e["post"]
            if nxt is not None and not nxt["c"]["reset"] and isinstance(nxt["c"]["optp"], dict):
                # staged optimisation: the call after the interruption gives an optimizer to a key that had none
                added = tuple(sorted(k for k, v in nxt["c"]["optp"].items() if v["type"] != "none" and p["opt"][k]["type"] == "none"))
                if added:
                    out.add(("adds", e["kind"], added, tuple(p["opt"][k]["type"] for k in KEYS)))
            if cont:
                out.add((e["kind"], tuple(p["opt"][k]["type"] for k in KEYS), tuple(p["sched"][k]["type"] for k in KEYS),
                         tuple(p["sched"][k]["e"] > 0 for k in KEYS)))
        return out
    need, first, rest = {}, [], []
    for h in hists:
        st = [x for x in strata(h) if need.get(x, 0) < (1 if quick else 3)]
        if st:
            for x in strata(h):
                need[x] = need.get(x, 0) + 1
            first.append(h)
        else:
            rest.append(h)
    budget = 64 if quick else 1600
    hists = (first + rest)[: max(budget, len(first))] if not quick else (first[:budget] + rest[: max(0, budget - len(first))])
    rep.note("strata", {"distinct": len(need), "behaviours_chosen_for_strata": len(first)})
    rep.note("behaviours", {"enumerated_with_interruptions": total, "replayed": len(hists)})
    rep.sample({"behaviour": [{"ev": e["ev"], "kind": e["kind"], "call": e["c"]} for e in hists[0]]})
    res = pmap(replay_behaviour, [(h, i) for i, h in enumerate(hists)], procs=16, chunk=1)
    for h, probs in zip(hists, res):
        rep.add_traces(1)
        rep.add_eval(len(h))
        rep.add_distinct([(e["ev"], e["kind"], e["c"]) for e in h])
        for key, msg in probs:
            rep.mismatch(key, msg, {"behaviour": [{"ev": e["ev"], "kind": e["kind"], "c": e["c"]} for e in h],
                                    "full": h, "message": msg})
    rule = ("behaviours of PtychoLifecycle exported by TLC (programs of 3 reconstruct calls x 1-2 "
            "interruptions of kind zip/dir/clone at any split point); a seeded sample is replayed "
            "with twin runs over object types complex/pure_phase/potential, 1-2 slices, 1-2 probe "
            "modes; distinct by call/interrupt sequence")
    return rule, False


def replay(path):
    body = json.load(open(path))
    out = []
    for i in range(4):
        out += replay_behaviour((body["replay"]["full"], i))
    for o in out:
        print(o)
    return 1 if out else 0
