"""C12 (PARTIAL) — one aberration surface in all its representations.  AberrationForms.tla (S->C).

TLC carries coefficient sets through the representation changes the library performs (user dict with
canonical / alias spelling -> polar -> Cartesian -> delta added -> polar; merge = the three in one call)
and computes the MEANING of every state - the surface and its gradient on the integer lattice of
scattering-angle vectors - exactly over the Gaussian integers.  Every behaviour is replayed through
standardize_aberration_coefs / validate_aberration_coefficients / the probe_params setter,
polar_to_cartesian_aberrations, cartesian_to_polar_aberrations, merge_aberration_coefficients, and after
every step the library's aberration_surface, aberration_surface_cartesian_gradients,
aberration_surface_cartesian_basis, aberration_surface_grad and DirectPtychography._return_lateral_shifts
are evaluated on the lattice and compared with TLC's numbers.  First-order states additionally go through
shifts -> fit_aberrations_from_shifts (round trip, several rotations).
"""
from __future__ import annotations

import json
import math
import os
import random
import shutil
import tempfile
import types
import warnings

import numpy as np

from harness.common import tlc
from harness.common.par import pmap
from harness.common.tlc import MachineryError

SPEC = os.path.join(tlc.SPECS, "aberration")
ALIAS = {(1, 0): ("defocus", None), (1, 2): ("astigmatism", "astigmatism_angle"),
         (2, 1): ("coma", "coma_angle"), (3, 0): ("Cs", None), (5, 0): ("C5", None)}
TERMS = [(1, 0), (1, 2), (2, 1), (2, 3), (3, 0), (3, 2), (3, 4), (4, 1), (4, 3), (4, 5), (5, 0), (5, 2), (5, 4), (5, 6)]
ROT = [0.0, math.atan2(3, 4), -math.atan2(3, 4), math.atan2(4, 3), -math.atan2(4, 3), 0.05, -1.3]


def _lattice(l):
    n = 2 * l + 1
    xs = np.array([(i // n) - l for i in range(n * n)], dtype=np.float64)
    ys = np.array([(i % n) - l for i in range(n * n)], dtype=np.float64)
    return xs, ys


def _user_dict(form, rep, variant):
    """The user's dictionary for the model's user state.  `variant` picks an equivalent angle branch
    (phi + 2 pi j / m) and the order in which magnitude and angle are listed."""
    items = []
    for (n, m, k, d1, d2) in rep:
        mod = math.hypot(d1, d2)
        cname, pname = f"C{n}{m}", f"phi{n}{m}"
        if form == "user_a" and (n, m) in ALIAS:
            cname, pn = ALIAS[(n, m)]
            pname = pn or pname
        pair = [(cname, float(k * mod) if m else float(k))]
        if m and not (d2 == 0 and d1 > 0 and (variant // 2) % 2 == 0):
            # (an angle of exactly zero may simply be left out: users write {"C56": 5} for phi56 = 0)
            j = variant % m
            pair.append((pname, math.atan2(d2, d1) / m + 2 * math.pi * j / m))
        if variant % 2:
            pair.reverse()
        items += pair
    if variant % 3 == 2:
        items.reverse()
    return dict(items)


def _complex_of(polar, n, m):
    import torch
    c = polar.get(f"C{n}{m}", 0.0)
    c = float(c.detach()) if isinstance(c, torch.Tensor) else float(c)
    if m == 0:
        return complex(c, 0.0)
    p = polar.get(f"phi{n}{m}", 0.0)
    p = float(p.detach()) if isinstance(p, torch.Tensor) else float(p)
    return c * complex(math.cos(m * p), math.sin(m * p))


def _expect_polar(rep):
    return {(n, m): complex(k * d1, k * d2) for (n, m, k, d1, d2) in rep}


def run_case(arg):
    case, idx = arg
    warnings.filterwarnings("ignore")
    import torch
    from quantem.core.utils.validators import validate_aberration_coefficients
    from quantem.diffractive_imaging import complex_probe as cp
    from quantem.diffractive_imaging.direct_ptycho_utils import fit_aberrations_from_shifts
    from quantem.diffractive_imaging.direct_ptychography import DirectPtychography
    out = []
    l = case["l"]
    hist = case["hist"]
    xs, ys = _lattice(l)
    alpha = torch.tensor(np.hypot(xs, ys), dtype=torch.float64)
    phi = torch.tensor(np.arctan2(ys, xs), dtype=torch.float64)
    lam = [0.25, 2.0, 0.0197][idx % 3]
    tag = f"case={idx} init={hist[0]['form']}:{hist[0]['rep']}"

    def bad(key, msg):
        out.append((key, f"{tag}: {msg}"))

    def close(got, exp, tol):
        got = np.asarray(got, dtype=np.float64)
        exp = np.asarray(exp, dtype=np.float64)
        return got.shape == exp.shape and np.all(np.abs(got - exp) <= tol * (1.0 + np.abs(exp).max()))

    def check_polar_state(polar, e, step, tol, ftol):
        """polar: dict name -> float/tensor as the library returned it; e: the model's entry."""
        exp = _expect_polar(e["rep"])
        names = set()
        for (n, m) in TERMS:
            got = _complex_of(polar, n, m)
            want = exp.get((n, m), 0j)
            if abs(got - want) > tol * (1 + abs(want)):
                bad(f"C12:{step}:coefficient", f"step {step}: C{n}{m} exp(i m phi) = {got:.5g}, model {want:.5g}")
                return False
        pol = {k_: (v if isinstance(v, torch.Tensor) else torch.tensor(float(v), dtype=torch.float64)).to(torch.float64)
               for k_, v in polar.items()}
        chi = cp.aberration_surface(alpha, phi, lam, pol)
        if not close(chi.numpy() * lam / (2 * math.pi) * 60, e["P"], ftol):
            bad(f"C12:{step}:surface", f"step {step}: aberration_surface differs from the model's polynomial "
                                       f"(got {np.round(chi.numpy()[:4] * lam / (2 * math.pi) * 60, 3)}, model {e['P'][:4]})")
        gx, gy = cp.aberration_surface_cartesian_gradients(alpha, phi, pol)
        if not (close(gx.numpy() / (2 * math.pi) * 60, e["Gx"], ftol) and close(gy.numpy() / (2 * math.pi) * 60, e["Gy"], ftol)):
            bad(f"C12:{step}:gradient", f"step {step}: analytic gradient / 2 pi differs from the exact derivative "
                                        f"(got x {np.round(gx.numpy()[:4] / (2 * math.pi) * 60, 3)}, model {e['Gx'][:4]})")
        return True

    def lattice_grid_checks(polar, e, step, ftol):
        """aberration_surface_grad / _return_lateral_shifts on an fftfreq grid equal to the lattice; all terms of one order."""
        orders = {n for (n, m, *_r) in e["rep"] if any(_r)}
        if len(orders) != 1:
            return
        n = orders.pop()
        g = 2 * l + 1
        pol = {k_: (v if isinstance(v, torch.Tensor) else torch.tensor(float(v))).to(torch.float32) for k_, v in polar.items()}
        # fftfreq(g, 1/g) = 0, 1, .., l, -l, .., -1 : the lattice in corner-centred order
        order = np.array([(i if i <= l else i - g) for i in range(g)])
        pos = {(int(a), int(b)): i for i, (a, b) in enumerate(zip(xs, ys))}
        sel = np.array([[pos[(order[i], order[j])] for j in range(g)] for i in range(g)])
        from quantem.core.utils.utils import electron_wavelength_angstrom
        energy = 80e3
        w = electron_wavelength_angstrom(energy)
        dx, dy = cp.aberration_surface_grad((g, g), (1.0 / g, 1.0 / g), energy, None, pol)
        ex = np.array(e["Gx"], dtype=np.float64)[sel] * (w ** n) / 60 * 2 * math.pi
        ey = np.array(e["Gy"], dtype=np.float64)[sel] * (w ** n) / 60 * 2 * math.pi
        if not (close(dx.numpy(), ex, ftol) and close(dy.numpy(), ey, ftol)):
            bad(f"C12:{step}:surface_grad", f"step {step}: aberration_surface_grad differs from wavelength^n x exact gradient")
        ns = types.SimpleNamespace(gpts=(g, g), sampling=(1.0 / g, 1.0 / g), wavelength=w, device="cpu")
        mask = torch.ones((g, g), dtype=torch.bool)
        sh = DirectPtychography._return_lateral_shifts(ns, None, pol, mask).numpy()
        if not (close(sh[:, 0], ex.reshape(-1) / (2 * math.pi), ftol) and close(sh[:, 1], ey.reshape(-1) / (2 * math.pi), ftol)):
            bad(f"C12:{step}:lateral_shifts", f"step {step}: predicted lateral shifts differ from the exact gradient")

    def fit_checks(e, step):
        exp = _expect_polar(e["rep"])
        if not set(k_ for k_, v in exp.items() if v != 0) <= {(1, 0), (1, 2)}:
            return
        c0 = exp.get((1, 0), 0j).real
        c2 = exp.get((1, 2), 0j)
        if not c0 * c0 > abs(c2) ** 2:        # identifiable domain: definite aberration matrix
            return
        co = {"C10": torch.tensor(c0), "C12": torch.tensor(abs(c2)), "phi12": torch.tensor(math.atan2(c2.imag, c2.real) / 2)}
        for gi, (gpts, samp) in enumerate((((6, 7), (0.3, 0.25)), ((5, 5), (0.2, 0.2)))):
            ns = types.SimpleNamespace(gpts=gpts, sampling=samp, wavelength=0.02, device="cpu")
            mask = torch.ones(gpts, dtype=torch.bool)
            if gi == 0:
                mask[3, :] = False
            for th in ROT:
                sh = DirectPtychography._return_lateral_shifts(ns, th, co, mask)
                r = fit_aberrations_from_shifts(sh, mask, ns.wavelength, gpts, samp)
                z = r["C12"] * complex(math.cos(2 * r["phi12"]), math.sin(2 * r["phi12"]))
                sc = 1 + abs(c0) + abs(c2)
                if abs(r["C10"] - c0) > 2e-3 * sc or abs(z - c2) > 2e-3 * sc or r["C12"] < -1e-6 or \
                        abs(math.remainder(r["rotation_angle"] - th, 2 * math.pi)) > 2e-3:
                    bad("C12:fit:round-trip", f"step {step}: fit of the shifts predicted for C10={c0}, C12 exp(2i phi12)={c2}, rotation {th:.4f} "
                                              f"returned {r}")
                    return

    try:
        e0 = hist[0]
        user = _user_dict(e0["form"], e0["rep"], idx)
        user_before = dict(user)
        polar = None
        cart = None
        live = []
        for si, e in enumerate(hist[1:], start=1):
            act = e["act"]
            if act == "Standardize":
                st = cp.standardize_aberration_coefs(user)
                if set(st) != {cp.POLAR_ALIASES.get(k_, k_) for k_ in user}:
                    bad("C12:Standardize:keys", f"standardize_aberration_coefs({user}) returned keys {sorted(st)}")
                check_polar_state(st, e, "Standardize", 1e-5, 1e-4)
                va = validate_aberration_coefficients(dict(user))
                check_polar_state(va, e, "Standardize:validator", 1e-9, 1e-9)
                if user != user_before:
                    bad("C12:Standardize:input-modified", "the caller's coefficient dictionary was modified")
                if idx % 4 == 0 or any(x["act"] == "Reassign" for x in hist):
                    from quantem.diffractive_imaging.probe_models import ProbeParametric, ProbePixelated
                    for cls in (ProbePixelated, ProbeParametric):
                        kw = {"roi_shape": (8, 8)} if cls is ProbeParametric else {}
                        pm = cls.from_params({"energy": 80e3, "semiangle_cutoff": 20, **user}, **kw)
                        check_polar_state(dict(pm.probe_params["aberration_coefs"]), e, f"Standardize:{cls.__name__}", 1e-9, 1e-9)
                        live.append(pm)
                polar = {k_: v.to(torch.float64) for k_, v in st.items()}
                # continue from the exact (float64) polar values so that later steps are not limited by float32 angles
                polar = {k_: torch.tensor(float(v), dtype=torch.float64) for k_, v in va.items()}
                lattice_grid_checks(polar, e, "Standardize", 2e-4)
                fit_checks(e, "Standardize")
            elif act == "Reassign":
                # coefficients handed to a LIVE probe model a second time: the named term takes the new value under the alias rule
                n, m = e["t"]
                uk, al = e["dv"]
                ent = next(r for r in e["rep"] if (r[0], r[1]) == (n, m))
                d1, d2 = ent[3], ent[4]
                mod = math.hypot(d1, d2)
                cname, pname = f"C{n}{m}", f"phi{n}{m}"
                if al and (n, m) in ALIAS:
                    cname, pn = ALIAS[(n, m)]
                    pname = pn or pname
                newd = {cname: float(uk * mod) if m else float(uk)}
                if m:
                    newd[pname] = math.atan2(d2, d1) / m
                want = complex(ent[2] * d1, ent[2] * d2)
                for pm in live:
                    pm.probe_params = dict(newd)
                    got = _complex_of(pm.probe_params["aberration_coefs"], n, m)
                    if abs(got - want) > 1e-9 * (1 + abs(want)):
                        bad("C12:Reassign:coefficient", f"{type(pm).__name__}.probe_params = {newd} on a live model: C{n}{m} exp(i m phi) = {got:.6g}, "
                                                         f"the dictionary means {want:.6g}")
                        break
                # the other sites with the same dictionary
                for site, fn in (("standardize", cp.standardize_aberration_coefs), ("validator", validate_aberration_coefficients)):
                    got = _complex_of(fn(dict(newd)), n, m)
                    if abs(got - want) > 1e-5 * (1 + abs(want)):
                        bad("C12:Reassign:coefficient", f"{site}({newd}): C{n}{m} exp(i m phi) = {got:.6g}, the dictionary means {want:.6g}")
                polar = dict(polar)
                polar[f"C{n}{m}"] = torch.tensor(float(ent[2] * mod) if m else float(ent[2]), dtype=torch.float64)
                if m:
                    polar[f"phi{n}{m}"] = torch.tensor(math.atan2(d2, d1) / m, dtype=torch.float64)
            elif act == "ToCart":
                polar_in = dict(polar)
                cart = cp.polar_to_cartesian_aberrations(polar, dtype=torch.float64)
                exp = {}
                for (n, m, a, b) in e["rep"]:
                    if m == 0:
                        exp[f"C{n}{m}"] = a
                    else:
                        exp[f"C{n}{m}_a"], exp[f"C{n}{m}_b"] = a, b
                for k_, v in cart.items():
                    if abs(float(v) - exp.get(k_, 0)) > 1e-9 * (1 + abs(exp.get(k_, 0))):
                        bad("C12:ToCart:coefficient", f"polar_to_cartesian_aberrations: {k_} = {float(v):.6g}, model {exp.get(k_, 0)}")
                        break
                if set(exp) - set(cart):
                    bad("C12:ToCart:keys", f"labels {sorted(set(exp) - set(cart))} missing from the Cartesian set")
                if set(polar) != set(polar_in) or any(float(polar[k_]) != float(polar_in[k_]) for k_ in polar_in):
                    bad("C12:ToCart:input-modified", "the polar input dictionary was modified")
            elif act == "AddDelta":
                n, m = e["t"]
                a, b = e["dv"]
                cart = dict(cart)
                if m == 0:
                    cart[f"C{n}{m}"] = cart.get(f"C{n}{m}", torch.tensor(0.0, dtype=torch.float64)) + a
                else:
                    cart[f"C{n}{m}_a"] = cart.get(f"C{n}{m}_a", torch.tensor(0.0, dtype=torch.float64)) + a
                    cart[f"C{n}{m}_b"] = cart.get(f"C{n}{m}_b", torch.tensor(0.0, dtype=torch.float64)) + b
            elif act == "ToPolar":
                polar = cp.cartesian_to_polar_aberrations(cart)
                for (n, m) in TERMS:
                    if m and float(polar.get(f"C{n}{m}", 0.0)) < 0:
                        bad("C12:ToPolar:negative-magnitude", f"cartesian_to_polar_aberrations returned C{n}{m} < 0")
                check_polar_state(polar, e, "ToPolar", 1e-9, 1e-9)
                lattice_grid_checks(polar, e, "ToPolar", 2e-4)
                fit_checks(e, "ToPolar")
            elif act == "Merge":
                n, m = e["t"]
                a, b = e["dv"]
                # the delta dictionary in the spellings a fit produces: only the fitted labels, or with an explicit zero partner
                if m == 0:
                    delta = {f"C{n}{m}": torch.tensor(float(a), dtype=torch.float64)}
                else:
                    delta = {f"C{n}{m}_a": torch.tensor(float(a), dtype=torch.float64), f"C{n}{m}_b": torch.tensor(float(b), dtype=torch.float64)}
                    if b == 0 and idx % 2:
                        delta.pop(f"C{n}{m}_b")
                polar_in = dict(polar)
                merged = cp.merge_aberration_coefficients(polar, delta)
                if set(polar) != set(polar_in) or any(float(polar[k_]) != float(polar_in[k_]) for k_ in polar_in):
                    bad("C12:Merge:input-modified", "merge_aberration_coefficients modified its polar input")
                polar = merged
                check_polar_state(polar, e, "Merge", 1e-9, 1e-9)
                lattice_grid_checks(polar, e, "Merge", 2e-4)
                fit_checks(e, "Merge")
            else:
                raise MachineryError(f"unknown action {act}")
            if e["form"] == "cart":
                # the Cartesian basis expansion of the current set
                labels = [k_ for k_ in cart]
                vec = torch.stack([torch.as_tensor(cart[k_], dtype=torch.float64) for k_ in labels])
                for lab in labels:
                    n_, m_, kind = cp.parse_cartesian_aberration_label(lab)
                    if lab != f"C{n_}{m_}" + (f"_{kind}" if kind else ""):
                        bad("C12:basis:label", f"parse_cartesian_aberration_label({lab!r}) = {(n_, m_, kind)}")
                basis = cp.aberration_surface_cartesian_basis(alpha, phi, lam, labels)
                chi = (basis.to(torch.float64) @ vec).numpy()
                if not close(chi * lam / (2 * math.pi) * 60, e["P"], 1e-9):
                    bad(f"C12:{act}:basis", f"step {act}: Cartesian basis expansion differs from the model's polynomial "
                                            f"(got {np.round(chi[:4] * lam / (2 * math.pi) * 60, 3)}, model {e['P'][:4]})")
                # a shuffled label order must give the same columns
                if idx % 5 == 0 and len(labels) > 2:
                    perm = list(reversed(labels))
                    b2 = cp.aberration_surface_cartesian_basis(alpha, phi, lam, perm)
                    if not torch.allclose(b2.flip(-1), basis):
                        bad("C12:basis:label-order", "basis columns depend on the order of the labels")
    except MachineryError:
        raise
    except Exception as ex:  # noqa: BLE001
        bad("C12:raised", f"{type(ex).__name__}: {str(ex)[:200]}")
    return out


def _gen(tmp, consts, name, workers=1, timeout=1800):
    g = tlc.cfg_variant(os.path.join(SPEC, "AbGEN.cfg"), tmp, name, consts)
    rg = tlc.run_tlc("AberrationForms", g, spec_dir=SPEC, workers=workers, timeout=timeout)
    tlc.expect_clean(rg, name)
    return rg.cases


def _gen_term(arg):
    consts, k = arg
    tmp = tempfile.mkdtemp(prefix="c12g_")
    try:
        return _gen(tmp, dict(consts, TermPick=k), f"gen{k}.cfg")
    finally:
        shutil.rmtree(tmp, ignore_errors=True)


def check(rep, tier, seed):
    quick = tier == "quick"
    rep.assume("PARTIAL (DESIGN.md section 5): the identity is decided on the integer lattice of scattering-angle vectors "
               "and for coefficient directions with rational cosine/sine; arbitrary real angles, the symbolic identity and "
               "noisy fits are not covered", "library floats compared with exact integers to 1e-9 relative (float64 paths), "
               "1e-4 (float32 paths: standardize_aberration_coefs, fftfreq grids)",
               "fit round trip only inside the identifiable domain C10^2 > C12^2")
    tmp = tempfile.mkdtemp(prefix="c12_")
    cases = []
    try:
        runs = [({"Scope": 1, "MaxDelta": 1, "MaxLen": 5}, "one term, every value")]
        if not quick:
            runs.append(({"Scope": 2, "MaxDelta": 1, "MaxLen": 4}, "two terms"))
            runs.append(({"Scope": 1, "MaxDelta": 2, "MaxLen": 6}, "one term, two deltas"))
        for consts, what in runs:
            c = tlc.cfg_variant(os.path.join(SPEC, "AbMC.cfg"), tmp, "mc.cfg", consts)
            r = tlc.run_tlc("AberrationForms", c, spec_dir=SPEC, workers=16, timeout=3000)
            rep.add_tlc(r, f"AberrationForms {what}: MeaningLaw, SurfaceAgree, GradAgree, Euler, Order1Linear")
            tlc.expect_clean(r, "AbMC")
        for cfg, inv, what in (("AbNEG_conj.cfg", "SurfaceAgree", "polar series with phi + phi_nm"),
                               ("AbNEG_alias.cfg", "MeaningLaw", "'defocus' taken as +C10"),
                               ("AbNEG_grad.cfg", "GradAgree", "azimuthal derivative with the wrong sign")):
            rn = tlc.run_tlc("AberrationForms", cfg, spec_dir=SPEC, workers=4, timeout=600)
            tlc.expect_violation(rn, f"{cfg} ({what})", inv)
        rep.note("negative_controls", ["AbNEG_conj", "AbNEG_alias", "AbNEG_grad"])
        gen_consts = [{"Scope": 1, "MaxDelta": 1, "MaxLen": 5}]
        if not quick:
            gen_consts.append({"Scope": 2, "MaxDelta": 1, "MaxLen": 4})
        for gc in gen_consts:
            res = pmap(_gen_term, [(gc, k) for k in range(1, 15 if gc["Scope"] == 1 else 14)], procs=14, chunk=1)   # the last term has no partner
            for cs in res:
                cases += cs
    finally:
        shutil.rmtree(tmp, ignore_errors=True)
    if not cases:
        raise MachineryError("no behaviours exported")
    total = len(cases)
    if quick:
        random.Random(seed).shuffle(cases)
        cases = cases[:1500]
    elif len(cases) > 40000:
        random.Random(seed).shuffle(cases)
        cases = cases[:40000]
    rep.note("cases", {"exported": total, "replayed": len(cases)})
    rep.sample({"behaviour": [{k: e[k] for k in ("act", "form", "rep", "t", "dv")} for e in cases[0]["hist"]],
                "P_of_last_state": cases[0]["hist"][-1]["P"]})
    res = pmap(run_case, [(c, i) for i, c in enumerate(cases)], procs=16, chunk=16)
    for ci, (c, probs) in enumerate(zip(cases, res)):
        rep.add_traces(1)
        rep.add_eval(len(c["hist"]) - 1)
        rep.add_distinct([[e["act"], e["form"], e["rep"], e["t"], e["dv"]] for e in c["hist"]])
        seen = set()
        for key, msg in probs:
            if key in seen:
                continue
            seen.add(key)
            rep.mismatch(key, msg, {"case": c, "idx": ci, "message": msg})
    rule = ("behaviours of AberrationForms.tla (every initial term and value, canonical / alias spelling, every order of "
            "Standardize, ToCart, AddDelta, ToPolar, Merge within the length bound) exported with the exact lattice values "
            "of the surface and its gradient; each replayed through the library's conversion functions with the surface, "
            "gradient, Cartesian basis, gradient grid and lateral shifts evaluated after every step; first-order states "
            "through the shift fit for seven rotations; distinct by (action, representation) sequence")
    return rule, False


def replay(path):
    body = json.load(open(path))
    out = run_case((body["replay"]["case"], body["replay"].get("idx", 0)))
    for o in out:
        print(o)
    return 1 if out else 0
