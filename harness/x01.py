"""X01 (extra coverage, not one of the listed properties) — the virtual-image registry of Dataset4dstem.

VirtualImages.tla specifies the two dictionaries (virtual detectors, virtual images) of one dataset and its copy
under get_virtual_image / update_virtual_detector / clear_* / regenerate_virtual_images / copy / crop, with exact
integer masked sums.  TLC checks ImagesHaveDetectors, ImageIsMaskedSum, FreshAfterRegenerate and Independent,
rejects a variant whose regenerate keeps stale images, and demonstrates (VirtualTorn.cfg) that the wanted property
NoTornEntries does NOT hold: a failed update_virtual_detector replaces the detector entry and keeps the old image.
Every exported behaviour is replayed into the real objects; after each call the projection of BOTH objects
(detector info, image names and values, pattern shape), the return value and the error are compared.
"""
from __future__ import annotations

import contextlib
import io
import json
import os
import random
import warnings

import numpy as np

from harness.common import tlc
from harness.common.par import pmap
from harness.common.tlc import MachineryError

SPEC = os.path.join(tlc.SPECS, "virtual")
D0, NP = 3, 2


def inten(p, r, c):
    return (((p + 1) * ((r * D0) + c + 1)) + r) % 7


def kwargs_of(s):
    if s["kind"] == "circle":
        return dict(mode="circle", geometry=((s["cy"], s["cx"]), s["r1"]))
    if s["kind"] == "annular":
        return dict(mode="annular", geometry=((s["cy"], s["cx"]), (s["r1"], s["r2"])))
    m = np.zeros((s["ms"], s["ms"]), dtype=bool)
    for (y, x) in s["m"]:
        m[y, x] = True
    return dict(mask=m)


def project_check(ds, st, who):
    """compare one real dataset (or None) with the model's object state."""
    if not st["exists"]:
        return None if ds is None else f"{who}: exists but the model has no such object"
    if ds is None:
        return f"{who}: missing"
    if tuple(ds.array.shape[-2:]) != (st["d"], st["d"]):
        return f"{who}: pattern shape {ds.array.shape[-2:]} != {st['d']}"
    dets = st["dets"] if isinstance(st["dets"], dict) else {}
    imgs = st["imgs"] if isinstance(st["imgs"], dict) else {}
    if set(ds.virtual_detectors) != set(dets):
        return f"{who}: detectors {sorted(ds.virtual_detectors)} != {sorted(dets)}"
    if set(ds.virtual_images) != set(imgs):
        return f"{who}: images {sorted(ds.virtual_images)} != {sorted(imgs)}"
    for n, s in dets.items():
        info = ds.virtual_detectors[n]
        if s["kind"] in ("circle", "annular"):
            want = kwargs_of(s)
            if info["mode"] != want["mode"] or info["geometry"] != want["geometry"] or info["mask"] is not None:
                return f"{who}: detector {n} is {info['mode']}/{info['geometry']}/mask={info['mask'] is not None}, model {s['kind']}"
        elif s["kind"] == "mask":
            want = kwargs_of(s)["mask"]
            if info["mode"] is not None or info["geometry"] is not None or info["mask"] is None or \
                    info["mask"].shape != want.shape or not np.array_equal(info["mask"], want):
                return f"{who}: detector {n} does not hold the custom mask of the model"
        else:
            if info["mode"] is not None or info["geometry"] is not None or info["mask"] is not None:
                return f"{who}: detector {n} of a copy still carries information (model: lost)"
    for n, im in imgs.items():
        got = np.asarray(ds.virtual_images[n].array).reshape(-1)
        if got.shape != (NP,) or not np.array_equal(got, np.array(im)):
            return f"{who}: image {n} = {got.tolist()} != {list(im)}"
    return None


def replay_behaviour(arg):
    hist, idx = arg
    warnings.filterwarnings("ignore")
    from quantem.core.datastructures.dataset4dstem import Dataset4dstem
    out = []
    data = np.array([[[[inten(p, r, c) for c in range(D0)] for r in range(D0)] for p in range(NP)]], dtype=np.int64)
    objs = {"A": Dataset4dstem.from_array(array=data.copy()), "B": None}
    sink = io.StringIO()
    for k, ev in enumerate(hist):
        op, o, arg_ = ev["op"], ev["o"], ev["arg"]
        tag = f"[event {k} {op} on {o} {arg_.get('n', '')} {arg_.get('s', {}).get('kind', '') if isinstance(arg_.get('s'), dict) else ''}]"
        ds = objs[o]
        raised, ret = None, None
        user_mask = None
        try:
            with contextlib.redirect_stdout(sink):
                if op == "get":
                    kw = kwargs_of(arg_["s"])
                    user_mask = kw.get("mask")
                    ret = ds.get_virtual_image(name=arg_["n"], attach=bool(arg_["attach"]), **kw)
                elif op == "update":
                    kw = kwargs_of(arg_["s"])
                    user_mask = kw.get("mask")
                    ds.update_virtual_detector(arg_["n"], **kw)
                elif op == "clear_images":
                    ds.clear_virtual_images()
                elif op == "clear_all":
                    ds.clear_all_virtual_data()
                elif op == "regenerate":
                    ds.regenerate_virtual_images()
                elif op == "copy":
                    objs["B"] = ds.copy()
                elif op == "crop_in_place":
                    d = ds.array.shape[-1]
                    ds.crop(((0, d - 1), (0, d - 1)), axes=(2, 3), modify_in_place=True)
                elif op == "crop_copy":
                    d = ds.array.shape[-1]
                    objs["B"] = ds.crop(((0, d - 1), (0, d - 1)), axes=(2, 3), modify_in_place=False)
                else:
                    raise MachineryError(f"unknown op {op}")
        except MachineryError:
            raise
        except ValueError as ex:
            raised = ex
        except Exception as ex:  # noqa: BLE001
            out.append(("X01:raised", f"{tag} unexpected {type(ex).__name__}: {str(ex)[:160]}"))
            return out
        if bool(ev["ok"]) != (raised is None):
            out.append((f"X01:{op}:error", f"{tag} model ok={ev['ok']}, real {'raised ' + repr(raised) if raised else 'returned'}"))
            return out
        if op == "get" and ev["ok"]:
            got = np.asarray(ret.array).reshape(-1)
            if not np.array_equal(got, np.array(ev["ret"])):
                out.append(("X01:get:value", f"{tag} returned {got.tolist()} != masked sum {ev['ret']}"))
                return out
        if user_mask is not None:
            user_mask[...] = ~user_mask          # the stored mask must be a copy of the caller's array
        for who in ("A", "B"):
            m = project_check(objs[who], ev["post"][who], who)
            if m:
                out.append((f"X01:{op}:projection", f"{tag} {m}"))
                return out
        if objs["A"] is not None and objs["B"] is not None:
            a, b = objs["A"], objs["B"]
            if a.virtual_detectors is b.virtual_detectors or a.virtual_images is b.virtual_images or \
                    any(a.virtual_detectors[n] is b.virtual_detectors.get(n) for n in a.virtual_detectors) or \
                    np.shares_memory(a.array, b.array):
                out.append(("X01:aliasing", f"{tag} the copy shares a dictionary / detector entry / array with the original"))
                return out
    return out


def check(rep, tier, seed):
    quick = tier == "quick"
    rep.assume("extra coverage beyond the listed properties; integer data so that masked sums are exact",
               "detector geometry with integer centre and radii (exact disc membership)")
    import shutil
    import tempfile
    tmp = tempfile.mkdtemp(prefix="x01_")
    try:
        c = tlc.cfg_variant(os.path.join(SPEC, "VirtualMC.cfg"), tmp, "mc.cfg", {"MaxLen": 4 if quick else 6})
        r = tlc.run_tlc("VirtualImages", c, spec_dir=SPEC, workers=16, timeout=3000)
        rep.add_tlc(r, "VirtualImages: ImagesHaveDetectors / ImageIsMaskedSum / FreshAfterRegenerate / Independent")
        tlc.expect_clean(r, "VirtualMC")
        rn = tlc.run_tlc("VirtualImages", "VirtualNEG.cfg", spec_dir=SPEC, workers=8, timeout=900)
        tlc.expect_violation(rn, "VirtualNEG (regenerate keeps stale images)", "FreshAfterRegenerate")
        rt = tlc.run_tlc("VirtualImages", "VirtualTorn.cfg", spec_dir=SPEC, workers=8, timeout=900)
        tlc.expect_violation(rt, "VirtualTorn (a failed update tears a registry entry)", "NoTornEntries")
        rep.note("negative_controls", ["VirtualNEG: regenerate keeps the images it cannot re-form",
                                       "VirtualTorn: NoTornEntries is NOT an invariant of the code's design (demonstrated)"])
        g = tlc.run_tlc("VirtualImages", "VirtualGEN.cfg", spec_dir=SPEC, workers=1, timeout=3000)
        tlc.expect_clean(g, "VirtualGEN")
    finally:
        shutil.rmtree(tmp, ignore_errors=True)
    hists = g.cases
    if not hists:
        raise MachineryError("no behaviours exported")
    total = len(hists)
    random.Random(seed).shuffle(hists)
    hists = hists[: (1500 if quick else 40000)]
    rep.note("behaviours", {"enumerated": total, "replayed": len(hists)})
    rep.sample({"behaviour": [{k: e[k] for k in ("op", "o", "arg", "ok")} for e in hists[0]]})
    res = pmap(replay_behaviour, [(h, i) for i, h in enumerate(hists)], procs=16, chunk=64)
    for h, probs in zip(hists, res):
        rep.add_traces(1)
        rep.add_eval(len(h))
        rep.add_distinct([(e["op"], e["o"], e["arg"]) for e in h])
        for key, msg in probs:
            rep.mismatch(key, msg, {"behaviour": [{k: e[k] for k in ("op", "o", "arg", "ok")} for e in h], "full": h, "message": msg})
    rule = ("behaviours of VirtualImages (length 3 over get/update/clear/regenerate/copy/crop on two objects) exported by "
            "TLC with the full post-state; a seeded sample is replayed into Dataset4dstem; distinct by call sequence")
    return rule, not quick and len(hists) == total


def replay(path):
    body = json.load(open(path))
    out = replay_behaviour((body["replay"]["full"], 0))
    for o in out:
        print(o)
    return 1 if out else 0
