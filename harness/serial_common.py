"""Shared by C01 / C14 / C08: instantiate abstract Serializer.tla values as concrete Python
objects, and compare a loaded concrete object with an abstract expected value."""
from __future__ import annotations

import logging
from pathlib import Path

import numpy as np
import torch

from harness.sclasses import Inner, Root

NP_INT = [np.int64, np.int32, np.uint8, np.int16]
NP_FLOAT = [np.float32, np.float64, np.float16]
ARR_DTYPES = ["<f4", "<i8", "<c8", "?", "<u2", "<f8", ">f4", "<f2", "M8[D]", "<U3", "S2",
              [("x", "<f4"), ("y", "<i2")], "<c16", "<i1", "m8[s]"]
T_DTYPES = [torch.float32, torch.float64, torch.int64, torch.bool, torch.complex64,
            torch.bfloat16, torch.int8, torch.float16]
TYPE_OBJ = {}


def type_objects():
    from harness.sclasses import VObj
    return {"int": int, "str": str, "ndarray": np.ndarray, "Tensor": torch.Tensor, "Obj": VObj,
            "list": list, "bool": bool, "float": float, "complex": complex, "tuple": tuple,
            "set": set, "dict": dict}


def _arr(tag, var):
    dt = np.dtype(ARR_DTYPES[var % len(ARR_DTYPES)])
    rng = np.random.default_rng(var)

    def fill(shape):
        n = int(np.prod(shape)) if shape else 1
        if dt.kind in "fc":
            a = (rng.integers(-50, 50, n) / 4).astype(dt.newbyteorder("=")).astype(dt)
            if dt.kind == "c":
                a = a + 1j * (rng.integers(-5, 5, n) / 2)
                a = a.astype(dt)
            if dt.kind == "f" and n > 2 and var % 3 == 0:
                a[0] = np.nan
                a[1] = np.inf
        elif dt.kind in "iu":
            a = rng.integers(0, 100, n).astype(dt)
        elif dt.kind == "b":
            a = rng.integers(0, 2, n).astype(bool)
        elif dt.kind == "M":
            a = (np.datetime64("2020-01-01") + rng.integers(0, 400, n)).astype(dt)
        elif dt.kind == "m":
            a = rng.integers(0, 400, n).astype(dt)
        elif dt.kind == "U":
            a = np.array(["ab", "c", "xyz", ""] * n)[:n].astype(dt)
        elif dt.kind == "S":
            a = np.array([b"ab", b"c", b"", b"zz"] * n)[:n].astype(dt)
        elif dt.kind == "V":
            a = np.zeros(n, dtype=dt)
            a["x"] = rng.integers(0, 9, n)
            a["y"] = rng.integers(0, 9, n)
        else:
            a = np.zeros(n, dtype=dt)
        return a.reshape(shape)

    if tag == "0d":
        return fill(())
    if tag == "empty":
        return np.zeros([(2, 0, 3), (0,), (3, 0)][var % 3], dtype=dt)
    if tag == "1d":
        return fill((5,))
    a = fill((2, 3))
    if var % 4 == 1:
        a = np.asfortranarray(a)
    elif var % 4 == 2:
        a = fill((4, 3))[::2]          # non-contiguous view
    return a


def _tensor(tag, var):
    if tag == "grad":
        dt = [torch.float32, torch.float64][var % 2]
        kind = (var // 2) % 4
        if kind == 1:        # a leaf that is a view into a larger storage
            return (torch.arange(12, dtype=dt).reshape(4, 3) / 4)[1:3].requires_grad_(True)
        if kind == 2:        # a Parameter
            return torch.nn.Parameter(torch.arange(6, dtype=dt).reshape(2, 3) / 4)
        if kind == 3:        # non-contiguous leaf (transposed view)
            return (torch.arange(6, dtype=dt).reshape(3, 2) / 4).t().requires_grad_(True)
        return (torch.arange(6, dtype=dt).reshape(2, 3) / 4).requires_grad_(True)
    dt = T_DTYPES[var % len(T_DTYPES)]
    shape = [(2, 3), (), (0, 3), (4,)][(var // len(T_DTYPES)) % 4]
    n = int(np.prod(shape)) if shape else 1
    base = torch.arange(n).reshape(shape)
    if (var // 3) % 5 == 4 and len(shape) == 2 and shape[0] > 1 and dt != torch.bool:
        # a view into a larger storage
        big = torch.arange(n * 2).reshape(shape[0] * 2, *shape[1:])
        v = big[::2]
        return (v + 1j * (v + 1)).to(dt) if dt.is_complex else ((v.to(torch.float64) / 2).to(dt) if dt.is_floating_point else v.to(dt))
    if dt == torch.bool:
        return (base % 2 == 0)
    if dt.is_complex:
        return (base + 1j * (base + 1)).to(dt)
    return (base.to(torch.float64) / 2).to(dt) if dt.is_floating_point else base.to(dt)


def inst(v, var):
    """abstract value (decoded JSON of a Serializer.tla record) -> concrete python value"""
    k, s = v["k"], v["s"]
    if k == "int":
        return int(v["num"] // 2)
    if k == "float":
        return v["num"] / 2
    if k == "bool":
        return bool(v["num"] // 2)
    if k == "str":
        return ["s", "é∂ x", "", "12"][var % 4]
    if k == "none":
        return None
    if k == "complex":
        return 1 + 2j
    if k == "path":
        return [Path("/tmp/x y/z.txt"), Path("rel/dir")][var % 2]
    if k == "npint":
        return NP_INT[var % len(NP_INT)](2)
    if k == "npfloat":
        return NP_FLOAT[var % len(NP_FLOAT)](1.5)
    if k == "npbool":
        return np.bool_(False)
    if k == "npcomplex":
        return [np.complex64, np.complex128][var % 2](1 + 2j)
    if k == "num":
        return v["num"] / 2
    if k == "arr":
        return _arr(s, var)
    if k == "tensor":
        return _tensor(s, var)
    if k == "module":
        torch.manual_seed(var)
        return torch.nn.Linear(2, 1)
    if k == "rng":
        return np.random.default_rng(3)
    if k == "logger":
        return logging.getLogger("verif.serializer")
    if k == "list":
        return [inst(x, var) for x in v["seq"]]
    if k == "tuple":
        return tuple(inst(x, var) for x in v["seq"])
    if k == "set":
        return {inst(x, var) for x in v["set"]}
    if k == "dict":
        return {n: inst(x, var) for n, x in sorted(_map(v).items())}
    if k == "obj":
        cls = Root if s == "Root" else Inner
        return cls(**{n: inst(x, var) for n, x in sorted(_map(v).items())})
    raise ValueError(f"cannot instantiate kind {k}")


def _map(v):
    m = v.get("map")
    return m if isinstance(m, dict) else {}


class Diff(Exception):
    pass


def _fail(path, msg):
    raise Diff(f"{path or '<root>'}: {msg}")


def same(exp, got, var, path=""):
    """Raise Diff unless `got` (concrete, loaded) equals the abstract expected value `exp`
    instantiated with the same variant."""
    k = exp["k"]
    if k == "RAISE":
        _fail(path, f"model expected an exception ({exp['s']}) but a value was loaded")
    if k == "num":
        if isinstance(got, (bool, int, float, np.integer, np.floating, np.bool_)) and \
                float(got) == exp["num"] / 2:
            return
        _fail(path, f"expected number {exp['num'] / 2}, got {got!r} ({type(got).__name__})")
    if k in ("int", "float", "bool", "str", "none", "complex"):
        want = inst(exp, var)
        if type(got) is not type(want) or got != want:
            _fail(path, f"expected {want!r} ({type(want).__name__}), got {got!r} ({type(got).__name__})")
        return
    if k == "npcomplex":
        want = inst(exp, var)
        if type(got) is not type(want) or got != want:
            _fail(path, f"expected {want!r} ({type(want).__name__}), got {got!r} ({type(got).__name__})")
        return
    if k == "path":
        want = inst(exp, var)
        if not isinstance(got, Path) or Path(got) != Path(want):
            _fail(path, f"expected path {want!r}, got {got!r} ({type(got).__name__})")
        return
    if k == "arr":
        if exp["s"] in ("0d-uninitialised", "raw-gzip-bytes"):
            _fail(path, "legacy model value cannot be expected")
        want = inst(exp, var)
        if not isinstance(got, np.ndarray):
            _fail(path, f"expected ndarray, got {type(got).__name__}")
        if got.dtype != want.dtype.newbyteorder("="):
            _fail(path, f"dtype {got.dtype} != {want.dtype}")
        if got.shape != want.shape:
            _fail(path, f"shape {got.shape} != {want.shape}")
        w = want.astype(want.dtype.newbyteorder("="))
        ok = np.array_equal(got, w, equal_nan=True) if w.dtype.kind in "fc" else bool(np.all(got == w))
        if not ok:
            _fail(path, f"array content differs: got {got!r:.80} want {w!r:.80}")
        return
    if k == "tensor":
        want = inst(exp, var)
        if not isinstance(got, torch.Tensor):
            _fail(path, f"expected Tensor, got {type(got).__name__}")
        if got.dtype != want.dtype or got.requires_grad != want.requires_grad or got.shape != want.shape:
            _fail(path, f"tensor dtype/grad/shape {got.dtype},{got.requires_grad},{tuple(got.shape)} != "
                        f"{want.dtype},{want.requires_grad},{tuple(want.shape)}")
        if not torch.equal(got.detach(), want.detach()):
            _fail(path, "tensor content differs")
        return
    if k == "module":
        want = inst(exp, var)
        if type(got) is not type(want):
            _fail(path, f"expected {type(want).__name__}, got {type(got).__name__}")
        sa, sb = got.state_dict(), want.state_dict()
        if sa.keys() != sb.keys() or any(not torch.equal(sa[n], sb[n]) for n in sa):
            _fail(path, "module state differs")
        return
    if k == "rng":
        if not isinstance(got, np.random.Generator):
            _fail(path, f"expected numpy Generator, got {type(got).__name__}")
        return
    if k == "logger":
        if not isinstance(got, logging.Logger):
            _fail(path, f"expected Logger, got {type(got).__name__}")
        return
    if k in ("list", "tuple"):
        if type(got) is not (list if k == "list" else tuple):
            _fail(path, f"expected {k}, got {type(got).__name__} {got!r:.60}")
        if len(got) != len(exp["seq"]):
            _fail(path, f"length {len(got)} != {len(exp['seq'])}")
        for i, (e, g) in enumerate(zip(exp["seq"], got)):
            same(e, g, var, f"{path}[{i}]")
        return
    if k == "set":
        if type(got) is not set:
            _fail(path, f"expected set, got {type(got).__name__} {got!r:.60}")
        if len(got) != len(exp["set"]):
            _fail(path, f"set size {len(got)} != {len(exp['set'])}")
        rest = list(got)
        for e in exp["set"]:
            for j, g in enumerate(rest):
                try:
                    same(e, g, var, path + "{}")
                    rest.pop(j)
                    break
                except Diff:
                    continue
            else:
                _fail(path, f"set element {e['k']} missing in {got!r:.60}")
        return
    if k == "dict":
        m = _map(exp)
        if type(got) is not dict:
            _fail(path, f"expected dict, got {type(got).__name__}")
        if set(got) != set(m):
            _fail(path, f"dict keys {sorted(got)} != {sorted(m)}")
        for n in m:
            same(m[n], got[n], var, f"{path}[{n!r}]")
        return
    if k == "obj":
        m = _map(exp)
        cls = Root if exp["s"] == "Root" else Inner
        if type(got) is not cls:
            _fail(path, f"expected {cls.__name__}, got {type(got).__name__}")
        names = set(vars(got))
        if names != set(m):
            _fail(path, f"attribute names {sorted(names)} != {sorted(m)}")
        for n in m:
            same(m[n], getattr(got, n), var, f"{path}.{n}")
        return
    _fail(path, f"unknown expected kind {k}")


def strip_abs(v, names):
    """python twin of Strip(v, S, {}) for the load-time laws (names only)."""
    if v["k"] != "obj":
        return v
    m = {n: strip_abs(x, names) for n, x in _map(v).items() if n not in names}
    out = dict(v)
    out["map"] = m
    return out


def deep_equal(a, b):
    """structural equality of two Python object graphs (used to show that save() leaves its object alone)."""
    import numpy as np
    import torch
    if type(a) is not type(b):
        return False
    if isinstance(a, np.ndarray):
        return a.dtype == b.dtype and a.shape == b.shape and bool(np.array_equal(a, b, equal_nan=a.dtype.kind in "fc"))
    if isinstance(a, torch.Tensor):
        return a.dtype == b.dtype and a.shape == b.shape and a.requires_grad == b.requires_grad and \
            a.is_contiguous() == b.is_contiguous() and bool(torch.equal(a.detach(), b.detach()))
    if isinstance(a, np.random.Generator):
        return str(a.bit_generator.state) == str(b.bit_generator.state)
    if isinstance(a, dict):
        return list(a) == list(b) and all(deep_equal(a[k], b[k]) for k in a)
    if isinstance(a, (list, tuple)):
        return len(a) == len(b) and all(deep_equal(x, y) for x, y in zip(a, b))
    if isinstance(a, (set, frozenset)):
        return a == b
    if hasattr(a, "__dict__") and not isinstance(a, type):
        try:
            va, vb = vars(a), vars(b)
        except TypeError:
            return True
        if set(va) != set(vb):
            return False
        return all(deep_equal(va[k], vb[k]) for k in va)
    try:
        r = a == b
        return bool(r) if not hasattr(r, "all") else bool(r.all())
    except Exception:  # noqa: BLE001
        return True

