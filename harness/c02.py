"""C02 — forward pipeline reproduces independently simulated data.  FwdModelZi.tla (S->C).

The independent reference implementation is the TLA+ specification itself: a step-wise
multislice, mixed-state forward model over the Gaussian integers (ROI 2x2 / 4x4, quarter-turn
object phases, Gaussian-integer probes, integer scan positions with wrap-around, quarter-wave
slices).  TLC checks IntensityConserved, WaveEnergy and Orthogonal at every step and exports
the exact integer diffraction patterns, unperturbed and with one object pixel turned by a
quarter turn.  The library is fed the exact data, given the ground truth, and every loss must
vanish for every batch size, object type and padding; at the perturbed object (TLC certifies
the patterns differ) the loss must be strictly larger.
"""
from __future__ import annotations

import contextlib
import io
import json
import os
import random
import shutil
import tempfile
import warnings

import numpy as np

from harness.common import tlc
from harness.common.par import pmap
from harness.common.tlc import MachineryError

SPEC = os.path.join(tlc.SPECS, "fwdzi")
S = 0.5   # real-space sampling (A)
LOSSES = ("l2_amplitude", "l1_amplitude", "l2_intensity", "l1_intensity")
# (the library adds eps = 1e-9 under the square root: exact zeros of the integer patterns contribute ~1e-9 each)
ZERO_TOL = {"l2_amplitude": 1e-7, "l1_amplitude": 1e-3, "l2_intensity": 1e-8, "l1_intensity": 2e-4}


def geometry(cfg):
    from harness.common import tiny_ptycho as tp
    lam = tp.wavelength_angstrom(80e3)
    roi = cfg["roi"]
    dz = (8 if max(roi) == 4 else 2) * S * S / lam
    # anisotropic pixels: column pixel size S/sqrt(2), so the Fresnel phase along columns is (pi/2) * 2 * b^2
    # (PropC = 2 in the model) while rows keep (pi/2) * a^2
    # (the column scan extent is kept an even number of pixels: the library takes floor(fov / sampling) and then
    # rounds up to even, which absorbs the 1-ulp error of the irrational pixel size only for even extents)
    samp = (S, S / np.sqrt(2.0)) if cfg.get("aniso") else S
    if cfg.get("aniso") and int(round((cfg["gpts"][1] - 1) * cfg["step"])) % 2:
        raise MachineryError("anisotropic geometry needs an even column scan extent")
    sim = tp.simulate(gpts=cfg["gpts"], roi=roi, num_slices=cfg["ns"], num_probe_modes=1, slice_thickness=dz,
                      sampling=samp, step_px=cfg["step"], seed=1, allow_edge=bool(cfg.get("edge")),
                      allow_half=bool(cfg.get("half")))
    pos2 = np.rint(2 * sim["positions_px"]).astype(int)          # positions in half pixels
    if not np.allclose(pos2, 2 * sim["positions_px"]):
        raise MachineryError("scan positions are not multiples of half a pixel in the chosen geometry")
    return sim, pos2, dz


def run_model(tmp, cfg, sim, pos2, idx):
    ny, nx = sim["obj"].shape[-2:]
    mod = f"Zi{idx}"
    half = bool((pos2 % 2).any())
    shutil.copy(os.path.join(SPEC, "FwdModelZi.tla"), os.path.join(tmp, "FwdModelZi.tla"))
    with open(os.path.join(tmp, f"{mod}.tla"), "w") as f:
        f.write(f"---- MODULE {mod} ----\nEXTENDS FwdModelZi\nPosDef == <<" +
                ", ".join(f"<<{int(r)}, {int(c)}>>" for r, c in pos2) + ">>\n====\n")
    base = (f"SPECIFICATION Spec\nCONSTANTS RY = {cfg['roi'][0]}\n RX = {cfg['roi'][1]}\n NY = {ny}\n NX = {nx}\n"
            f" NS = {cfg['ns']}\n NM = {cfg['nm']}\n Pos <- PosDef\n Half = {'TRUE' if half else 'FALSE'}\n"
            f" PropR = 1\n PropC = {2 if cfg.get('aniso') else 1}\n TwiddleBug = FALSE\n")
    with open(os.path.join(tmp, f"{mod}_mc.cfg"), "w") as f:
        f.write(base + "INVARIANT IntensityConserved\nINVARIANT WaveEnergy\nINVARIANT Orthogonal\nINVARIANT Emit\n")
    return tlc.run_tlc(mod, f"{mod}_mc.cfg", spec_dir=tmp, workers=1, timeout=1500)


def make_sim(sim0, case, q, inten, reverse_modes=False):
    """reverse_modes: the incoherent modes are handed to the probe setter weakest first (the sum of the mode
    intensities - all the data see - does not depend on the order the modes are installed in)."""
    sim = dict(sim0)
    ns, ny, nx = case["ns"], case["ny"], case["nx"]
    pot = np.array(q, dtype=float).reshape(ns, ny, nx) * (np.pi / 2)
    probe = np.array(case["probe"], dtype=float)              # (nm, ry, rx, 2)
    probe = probe[..., 0] + 1j * probe[..., 1]
    if reverse_modes:
        probe = probe[::-1].copy()
    gy, gx = sim0["intensities"].shape[:2]
    I = np.array(inten, dtype=np.float64).reshape(gy, gx, case["ry"], case["rx"]) / float(case["scale"])
    sim.update(potential=pot, obj=np.exp(1j * pot), probe=probe, intensities=I, num_probe_modes=case["nm"],
               mean_diffraction_intensity=float(I.sum(axis=(-2, -1)).mean()))
    return sim


def run_group(arg):
    """One parameter choice: the unperturbed case and its perturbed variants."""
    sim0, group, idx, quick, edge = arg
    warnings.filterwarnings("ignore")
    from harness.common import tiny_ptycho as tp
    out = []
    base = next(c for c in group if not c["pert"]["on"] and not c["pert"]["probe"])
    perts = [c for c in group if c["pert"]["on"]]
    pprobe = [c for c in group if c["pert"]["probe"]]
    tag = f"roi={base['ry']}x{base['rx']} slices={base['ns']} modes={base['nm']} par={base['par']}"
    n = len(base["inten"])
    try:
        with contextlib.redirect_stdout(io.StringIO()):
            types = ("complex", "pure_phase", "potential")
            for ti, ot in enumerate(types if not quick else types[idx % 3: idx % 3 + 1]):
                for pad in ((0, 0), (4, 8)) if (not quick or idx % 2) else ((0, 0),):
                    sim = make_sim(sim0, base, base["q"], base["inten"], reverse_modes=bool((idx + ti) % 2))
                    if edge and pad != (0, 0):
                        continue
                    # (a third of the groups: the same dataset / reconstruction objects were preprocessed once before
                    # with other options - preprocessing is a function of its arguments, not of the object's past)
                    p = tp.build(sim, obj_type=ot, obj_padding_px=pad, check=not edge, warm_preprocess=(idx % 3 == 1 and not edge))
                    at_truth = {}
                    for lt in LOSSES:
                        for bsz in (None, 1, 2, n - 1 if n > 2 else 1):
                            v = tp.forward_loss(p, lt, bsz)
                            at_truth[lt] = max(at_truth.get(lt, 0.0), abs(v))
                            if not np.isfinite(v) or abs(v) > ZERO_TOL[lt]:
                                out.append((f"C02:loss-at-truth:{'edge-position' if edge else lt}", f"{tag} {ot} pad={pad}: batch {bsz}: loss {v:.3g} at the "
                                            "ground truth of the exact Gaussian-integer data" + (" (a scan position equals the object size)" if edge else "")))
                                break
                        else:
                            continue
                        break
                    if edge:
                        continue
                    # instances are independent: building and evaluating ANOTHER reconstruction (other beam energy,
                    # slice count, probe) must not change what this one predicts
                    if pad == (0, 0):
                        other_sim = tp.simulate(gpts=(2, 2), roi=(4, 4), num_slices=2, num_probe_modes=1, energy=300e3,
                                                slice_thickness=5.0, sampling=0.4, step_px=1, seed=3)
                        other = tp.build(other_sim, obj_type=ot)
                        tp.forward_loss(other, "l2_amplitude", None)
                        for lt in LOSSES[:2]:
                            v = tp.forward_loss(p, lt, None)
                            if not np.isfinite(v) or abs(v) > ZERO_TOL[lt]:
                                out.append(("C02:instances-not-independent", f"{tag} {ot}: after another reconstruction object (300 kV) was built "
                                            f"and evaluated, the loss of THIS object at its ground truth is {v:.3g}"))
                                break
                        del other
                    # perturbed object against the unperturbed data: strictly larger loss
                    for pc in perts[: (1 if quick else None)]:
                        if pc["inten"] == base["inten"]:
                            continue      # TLC's patterns do not change: nothing is claimed
                        simp = make_sim(sim0, base, pc["q"], base["inten"])
                        pp = tp.build(simp, obj_type=ot, obj_padding_px=pad)
                        for lt in LOSSES:
                            v = tp.forward_loss(pp, lt, None)
                            if not (v > max(10 * ZERO_TOL[lt], 100 * at_truth.get(lt, 0.0))):
                                out.append((f"C02:perturbed-not-larger:{lt}", f"{tag} {ot} pad={pad}: loss {v:.3g} at the perturbed "
                                            f"object (pixel {pc['pert']}) is not larger than at the truth ({at_truth[lt]:.3g})"))
                                break
                    # perturbed probe (TLC's variant with one probe pixel turned by a quarter turn)
                    for pc in pprobe:
                        if pc["inten"] == base["inten"]:
                            continue
                        simq = make_sim(sim0, pc, base["q"], base["inten"])      # perturbed probe, unperturbed data
                        pq = tp.build(simq, obj_type=ot, obj_padding_px=pad)
                        v = tp.forward_loss(pq, "l2_amplitude", None)
                        if not (v > max(10 * ZERO_TOL["l2_amplitude"], 100 * at_truth.get("l2_amplitude", 0.0))):
                            out.append(("C02:perturbed-probe-not-larger", f"{tag} {ot} pad={pad}: loss {v:.3g} at a perturbed probe"))
    except Exception as ex:  # noqa: BLE001
        out.append(("C02:raised", f"{tag}: {type(ex).__name__}: {str(ex)[:200]}"))
    return out


FLOAT_TOL = {"l2_amplitude": 1e-9, "l1_amplitude": 5e-5, "l2_intensity": 1e-8, "l1_intensity": 1e-4}


def float_case(arg):
    """Outside the exact sub-domain (labelled as such): larger and non-square ROIs incl. sizes where k/n*n does not
    come back to k in floating point (14, 24, 28), fractional positions, 1-3 modes, 1-3 slices, padding - data from
    the fixture's independent float64 NumPy forward model; the library's loss at that truth must vanish to float32
    precision (measured 3e-13 / 1e-6 / 1e-11 / 3e-6 on the repaired tree)."""
    roi, ns, nm, pad, idx = arg
    warnings.filterwarnings("ignore")
    from harness.common import tiny_ptycho as tp
    out = []
    ot = ("complex", "pure_phase", "potential")[idx % 3]
    tag = f"float reference roi={roi[0]}x{roi[1]} slices={ns} modes={nm} pad={pad} {ot}"
    try:
        with contextlib.redirect_stdout(io.StringIO()):
            sim = tp.simulate(gpts=(3, 4), roi=roi, num_slices=ns, num_probe_modes=nm, obj_type=ot, fractional=True, seed=3 + idx)
            p = tp.build(sim, obj_type=ot, obj_padding_px=pad)
            for lt in LOSSES:
                for bsz in (None, 5):
                    v = tp.forward_loss(p, lt, bsz)
                    if not np.isfinite(v) or abs(v) > FLOAT_TOL[lt]:
                        out.append((f"C02:float-reference:{lt}", f"{tag}: batch {bsz}: loss {v:.3g} at the ground truth of data simulated by "
                                                                  "the independent NumPy forward model"))
                        break
                else:
                    continue
                break
    except Exception as ex:  # noqa: BLE001
        out.append(("C02:float-reference:raised", f"{tag}: {type(ex).__name__}: {str(ex)[:200]}"))
    return out


def check(rep, tier, seed):
    quick = tier == "quick"
    rep.assume("exact sub-domain: ROI 2x2 / 4x4, quarter-turn phases, Gaussian-integer probes, integer positions, "
               "quarter-wave slices (isotropic and sqrt(2)-anisotropic pixels), half-pixel positions on the 2x2 ROI; other fractional positions, odd/non-square "
               "ROIs and generic phases are NOT reached by this check", "descan correction disabled (no_shift)", "probe modes are orthogonal with descending "
               "intensity (checked on the model) so the library's orthogonalisation is a no-op",
               "loss zero tolerances: l2 1e-7/1e-8, l1 1e-3/2e-4 (float32, eps under the square root); perturbed loss must exceed 10x the zero tolerance and 100x the loss at the truth")
    cfgs = [dict(roi=(4, 4), gpts=(2, 3), step=1, ns=1, nm=1), dict(roi=(4, 4), gpts=(4, 3), step=2, ns=2, nm=2),
            dict(roi=(2, 2), gpts=(3, 3), step=1, ns=2, nm=1),
            dict(roi=(2, 2), gpts=(3, 4), step=1.5, ns=1, nm=2, half=True),      # exact half-pixel positions
            dict(roi=(2, 2), gpts=(3, 3), step=2.5, ns=2, nm=1, half=True),
            dict(roi=(4, 4), gpts=(2, 3), step=1, ns=2, nm=1, aniso=True),         # anisotropic pixels, multislice
            dict(roi=(4, 4), gpts=(5, 3), step=2, ns=1, nm=1, edge=True)]          # last scan row at index N
    if not quick:
        cfgs += [dict(roi=(4, 4), gpts=(2, 3), step=1, ns=2, nm=1), dict(roi=(4, 4), gpts=(3, 4), step=2, ns=1, nm=2),
                 dict(roi=(2, 2), gpts=(4, 4), step=2, ns=1, nm=2), dict(roi=(4, 4), gpts=(3, 3), step=1, ns=3, nm=1),
                 dict(roi=(4, 4), gpts=(2, 3), step=2, ns=3, nm=2, aniso=True), dict(roi=(2, 2), gpts=(3, 3), step=1, ns=2, nm=1, aniso=True)]
    tmp = tempfile.mkdtemp(prefix="c02_")
    jobs = []
    try:
        rn = tlc.run_tlc("ZiTest", "ZiNEG.cfg", spec_dir=SPEC, workers=4, timeout=600)
        tlc.expect_violation(rn, "ZiNEG (wrong twiddle exponent)")
        rep.note("negative_controls", ["ZiNEG: wrong DFT twiddle exponent -> energy not conserved"])
        for i, cfg in enumerate(cfgs):
            with contextlib.redirect_stdout(io.StringIO()):
                sim0, pos, dz = geometry(cfg)
            r = run_model(tmp, cfg, sim0, pos, i)
            rep.add_tlc(r, f"FwdModelZi roi={cfg['roi']} gpts={cfg['gpts']} slices={cfg['ns']} modes={cfg['nm']}")
            tlc.expect_clean(r, "FwdModelZi")
            groups = {}
            for c in r.cases:
                groups.setdefault(json.dumps(c["par"], sort_keys=True), []).append(c)
            keys = sorted(groups)
            if quick or cfg.get("edge"):
                random.Random(seed + i).shuffle(keys)
                keys = keys[: (2 if cfg.get("edge") else 5)]
            for k in keys:
                if not any(not c["pert"]["on"] and not c["pert"]["probe"] for c in groups[k]):
                    raise MachineryError("group without an unperturbed case")
                jobs.append((sim0, groups[k], len(jobs), quick, bool(cfg.get("edge"))))
    finally:
        shutil.rmtree(tmp, ignore_errors=True)
    if not jobs:
        raise MachineryError("no cases exported")
    g0 = jobs[0][1][0]
    rep.sample({"case": {k: g0[k] for k in ("ry", "rx", "ny", "nx", "ns", "nm", "scale", "par", "pert")},
                "first_pattern_numerators": g0["inten"][0], "probe_mode0": g0["probe"][0]})
    rep.note("cases", {"configurations": len(cfgs), "parameter_groups": len(jobs)})
    res = pmap(run_group, jobs, procs=16, chunk=1)
    for j, probs in zip(jobs, res):
        rep.add_traces(len(j[1]))
        rep.add_eval(len(j[1]))
        for c in j[1]:
            rep.add_distinct([c["ry"], c["ns"], c["nm"], c["par"], c["pert"]])
        seen = set()
        for key, msg in probs:
            if key not in seen:
                seen.add(key)
                rep.mismatch(key, msg, {"group": [{k: c[k] for k in ("ry", "rx", "ns", "nm", "par", "pert")} for c in j[1]],
                                        "message": msg})
    # supplementary, outside the model's exact sub-domain
    fl = [((14, 8), 2, 2, (0, 0)), ((24, 16), 2, 1, (8, 12)), ((8, 14), 1, 3, (4, 8)), ((28, 28), 3, 2, (0, 0))]
    if not quick:
        fl += [((16, 24), 2, 2, (8, 12)), ((12, 12), 4, 1, (0, 0)), ((14, 14), 2, 3, (8, 8)), ((24, 24), 2, 2, (12, 12)), ((6, 22), 2, 1, (0, 0))]
    fjobs = [(roi, ns, nm, pad, i) for i, (roi, ns, nm, pad) in enumerate(fl)]
    fres = pmap(float_case, fjobs, procs=16, chunk=1)
    for j, probs in zip(fjobs, fres):
        rep.add_eval(8)
        for key, msg in probs:
            rep.mismatch(key, msg, {"float_case": list(j), "message": msg})
    rep.note("float_reference_cases", {"count": len(fjobs), "note": "not model-decided: the fixture's float64 NumPy forward model "
                                       "is the reference; larger / non-square ROIs, fractional positions"})
    rule = ("cases are complete behaviours of the FwdModelZi pipeline exported by TLC per (geometry, family parameters, "
            "perturbation): exact integer patterns; each parameter group is evaluated in the library at the ground truth "
            "(all four losses x batch sizes x object types x paddings) and at TLC-certified perturbations; distinct by "
            "(geometry, parameters, perturbation)")
    return rule, False


def replay(path):
    rp = json.load(open(path))["replay"]
    if "float_case" in rp:
        a = rp["float_case"]
        out = float_case((tuple(a[0]), a[1], a[2], tuple(a[3]), a[4]))
        for o in out:
            print(o)
        return 1 if out else 0
    print(json.dumps(rp, indent=1)[:3000])
    return 1
