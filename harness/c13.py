"""C13 — image registration.  Registration.tla (S->C, exact oracle).

TLC computes exact integer circular cross-correlations on a family of small images, checks
Recovers / ZeroOnIdentical / SwapNegates / Aligns for every shift of the periodic cell and
rejects a sign-flipped estimator.  Every exported (reference, moving, shift) triple is given
to the NumPy and torch estimators for upsampling factors 1..64 (real / Fourier inputs and
outputs, max_shift); integer shifts must come back exactly.  Band-limited sub-pixel cases
are synthesised from model-chosen integer spectra and must come back within 1/upsample.
"""
from __future__ import annotations

import json
import os
import random
import shutil
import tempfile
from concurrent.futures import ThreadPoolExecutor

import numpy as np

from harness.common import tlc
from harness.common.par import pmap
from harness.common.tlc import MachineryError

SPEC = os.path.join(tlc.SPECS, "registration")
UPS = [1, 2, 3, 4, 5, 7, 8, 16, 64]


def same_shift(est, s, shape, tol):
    d = (np.asarray(est, float) - np.asarray(s, float))
    d = (d + np.array(shape) / 2) % np.array(shape) - np.array(shape) / 2
    # N/2 and -N/2 are the same translation
    d = np.minimum(np.abs(d), np.abs(np.abs(d) - np.array(shape)))
    return bool(np.all(d <= tol))


def run_case(arg):
    case, idx, quick = arg
    import torch
    from quantem.core.utils.imaging_utils import cross_correlation_shift, cross_correlation_shift_torch
    out = []
    a = np.array(case["a"], dtype=float)
    b = np.array(case["b"], dtype=float)
    s = np.array(case["s"], dtype=float)
    est = np.array(case["est"], dtype=float)     # principal-cell value from the model
    shape = a.shape
    # the estimate does not depend on the unit of the image intensities: the same pair is also handed over scaled by an
    # exact power of two (values around 1e-7 and 1e6)
    unit = (1.0, 2.0 ** -24, 2.0 ** 20)[(idx // 5) % 3]
    a = a * unit
    b = b * unit
    tag = f"shape={shape} shift={case['s']} unit={unit:g}"
    ups = UPS if not quick else [1, 2, 3, 4, 16]

    def bad(key, msg):
        out.append((key, f"{tag}: {msg}"))
    try:
        for u in ups:
            r = np.asarray(cross_correlation_shift(a, b, upsample_factor=u), float)
            if not same_shift(r, est, shape, 1e-6):
                bad(f"C13:numpy:integer-shift:upsample{'>1' if u > 1 else '=1'}", f"u={u}: returned {r.tolist()}, applied {est.tolist()}")
                break
        for u in ups:
            rt = cross_correlation_shift_torch(torch.tensor(a), torch.tensor(b), upsample_factor=max(u, 1)).numpy()
            if not same_shift(rt, est, shape, 1e-5):
                bad(f"C13:torch:integer-shift:upsample{'>2' if u > 2 else '<=2'}", f"u={u}: returned {rt.tolist()}, applied {est.tolist()}")
                break
        u = ups[idx % len(ups)]
        # Fourier-space input / output, aligned image
        Fa, Fb = np.fft.fft2(a), np.fft.fft2(b)
        r2, img = cross_correlation_shift(Fa, Fb, upsample_factor=u, fft_input=True, return_shifted_image=True)
        if not same_shift(r2, est, shape, 1e-6):
            bad("C13:numpy:fft-input", f"u={u}: returned {np.asarray(r2).tolist()}, applied {est.tolist()}")
        elif not np.allclose(img, a, atol=1e-6 * unit, rtol=0):
            bad("C13:numpy:aligned-image", f"u={u}: aligned image differs from the reference by {np.abs(img - a).max():.3g}")
        r3, Fimg = cross_correlation_shift(a, b, upsample_factor=u, return_shifted_image=True, fft_output=True)
        if same_shift(r3, est, shape, 1e-6) and not np.allclose(np.fft.ifft2(Fimg).real, a, atol=1e-6 * unit, rtol=0):
            bad("C13:numpy:aligned-image-fft-output", f"u={u}: Fourier-space aligned image differs from the reference")
        # max_shift larger than the applied shift does not change the answer
        # (tight and loose limits: the limit is a Euclidean distance in pixels, the same along rows and columns)
        # With the tight limit some NEIGHBOURS of the true peak are masked out, which biases the parabolic / upsampled
        # refinement by a fraction of a pixel (3e-4 px seen): there the answer is required to within one (upsampled)
        # pixel only; with the looser limits all eight neighbours are inside and the answer must be exact.
        for ms, tol4 in ((float(np.hypot(*np.abs(est)) + 0.5), max(1.0 / max(u, 1), 0.5) * 0.999),
                         (float(np.hypot(*np.abs(est)) + 1.5), 1e-6), (float(max(shape)), 1e-6)):
            r4 = cross_correlation_shift(a, b, upsample_factor=u, max_shift=ms)
            if not same_shift(r4, est, shape, tol4):
                bad("C13:numpy:max_shift", f"u={u} max_shift={ms:.2f}: returned {np.asarray(r4).tolist()}, applied {est.tolist()}")
                break
        # identical images: zero for every factor; swapping negates
        for uu in ups:
            z = np.asarray(cross_correlation_shift(a, a, upsample_factor=uu), float)
            if not same_shift(z, [0, 0], shape, 1e-6):
                bad("C13:numpy:identical-nonzero", f"u={uu}: identical images gave {z.tolist()}")
                break
            zt = cross_correlation_shift_torch(torch.tensor(a), torch.tensor(a), upsample_factor=uu).numpy()
            if not same_shift(zt, [0, 0], shape, 1e-5):
                bad("C13:torch:identical-nonzero", f"u={uu}: identical images gave {zt.tolist()}")
                break
        # the chain Register ; Swap of the specification runs on the SAME images: reuse the very same
        # Fourier arrays across calls (as align_translation does with its reference spectrum) and
        # require that no call modifies its inputs
        Fa0, Fb0, a0, b0 = Fa.copy(), Fb.copy(), a.copy(), b.copy()
        c1 = np.asarray(cross_correlation_shift(Fa, Fb, upsample_factor=u, fft_input=True), float)
        c2 = np.asarray(cross_correlation_shift(Fb, Fa, upsample_factor=u, fft_input=True), float)
        c3, img3 = cross_correlation_shift(Fa, Fa, upsample_factor=u, fft_input=True, return_shifted_image=True)
        c4 = np.asarray(cross_correlation_shift(Fa, Fb, upsample_factor=u, fft_input=True), float)
        if not (same_shift(c1, est, shape, 1e-6) and same_shift(c4, est, shape, 1e-6)):
            bad("C13:numpy:chain:repeat", f"u={u}: repeated registration of the same spectra gave {c1.tolist()} then {c4.tolist()}, applied {est.tolist()}")
        if not same_shift(c2, -est, shape, 1e-6):
            bad("C13:numpy:chain:swap", f"u={u}: swap on the same spectra gave {c2.tolist()}, expected {(-est).tolist()}")
        if not same_shift(c3, [0, 0], shape, 1e-6) or not np.allclose(img3, a, atol=1e-6 * unit, rtol=0):
            bad("C13:numpy:chain:identical", f"u={u}: identical spectra gave shift {np.asarray(c3).tolist()}, aligned image error {np.abs(img3 - a).max():.3g}")
        if not (np.array_equal(Fa, Fa0) and np.array_equal(Fb, Fb0) and np.array_equal(a, a0) and np.array_equal(b, b0)):
            bad("C13:numpy:inputs-modified", f"u={u}: the estimator modified its input arrays")
        # every combination of the input / output options on the SAME arrays: right answer, right aligned image,
        # inputs untouched, and the next plain call still right
        for fi in (False, True):
            for rsi, fo in ((False, False), (True, False), (True, True)):
                args = (Fa, Fb) if fi else (a, b)
                res = cross_correlation_shift(*args, upsample_factor=u, fft_input=fi, return_shifted_image=rsi, fft_output=fo)
                sh = np.asarray(res[0] if rsi else res, float)
                opt = f"fft_input={fi} return_shifted_image={rsi} fft_output={fo}"
                if not same_shift(sh, est, shape, 1e-6):
                    bad("C13:numpy:options:shift", f"u={u} {opt}: returned {sh.tolist()}, applied {est.tolist()}")
                elif rsi:
                    al = np.fft.ifft2(res[1]).real if fo else np.asarray(res[1])
                    if al.shape != a.shape or not np.allclose(al, a, atol=1e-6 * unit, rtol=0):
                        bad("C13:numpy:options:aligned-image", f"u={u} {opt}: aligned image differs from the reference")
                if not (np.array_equal(Fa, Fa0) and np.array_equal(Fb, Fb0) and np.array_equal(a, a0) and np.array_equal(b, b0)):
                    bad("C13:numpy:inputs-modified", f"u={u} {opt}: the estimator modified its input arrays")
                    Fa, Fb, a, b = Fa0.copy(), Fb0.copy(), a0.copy(), b0.copy()
                again = np.asarray(cross_correlation_shift(*args, upsample_factor=u, fft_input=fi), float)
                if not same_shift(again, est, shape, 1e-6):
                    bad("C13:numpy:chain:repeat", f"u={u} after {opt}: the next call on the same arrays gave {again.tolist()}, applied {est.tolist()}")
        ta, tb = torch.tensor(a), torch.tensor(b)
        ta0, tb0 = ta.clone(), tb.clone()
        t1 = cross_correlation_shift_torch(ta, tb, upsample_factor=max(u, 2)).numpy()
        t2 = cross_correlation_shift_torch(tb, ta, upsample_factor=max(u, 2)).numpy()
        t3 = cross_correlation_shift_torch(ta, tb, upsample_factor=max(u, 2)).numpy()
        if not (same_shift(t1, est, shape, 1e-5) and same_shift(t3, est, shape, 1e-5) and same_shift(t2, -est, shape, 1e-5)):
            bad("C13:torch:chain", f"u={u}: chain on the same tensors gave {t1.tolist()}, {t2.tolist()}, {t3.tolist()}")
        if not (torch.equal(ta, ta0) and torch.equal(tb, tb0)):
            bad("C13:torch:inputs-modified", f"u={u}: the estimator modified its input tensors")
        rs = np.asarray(cross_correlation_shift(b, a, upsample_factor=u), float)
        r0 = np.asarray(cross_correlation_shift(a, b, upsample_factor=u), float)
        if not same_shift(rs, -r0, shape, 1e-6):
            bad("C13:numpy:swap", f"u={u}: swap gave {rs.tolist()} vs {r0.tolist()}")
        rst = cross_correlation_shift_torch(torch.tensor(b), torch.tensor(a), upsample_factor=max(u, 2)).numpy()
        r0t = cross_correlation_shift_torch(torch.tensor(a), torch.tensor(b), upsample_factor=max(u, 2)).numpy()
        if not same_shift(rst, -r0t, shape, 1e-5):
            bad("C13:torch:swap", f"u={u}: swap gave {rst.tolist()} vs {r0t.tolist()}")
    except Exception as ex:  # noqa: BLE001
        bad("C13:raised", f"{type(ex).__name__}: {str(ex)[:200]}")
    return out


def subpixel_case(arg):
    """Band-limited image from an integer spectrum (model parameters), shifted by p/q pixels."""
    shape, par, num, den, idx, quick = arg
    import torch
    from quantem.core.utils.imaging_utils import cross_correlation_shift, cross_correlation_shift_torch
    out = []
    H, W = shape
    r, c = np.meshgrid(np.arange(H), np.arange(W), indexing="ij")
    amps = [(1, 0, 3 + par["a"], par["g"]), (0, 1, 2 + par["b"], par["h"]), (1, 1, 1 + par["d"], 1), (1, -1, 1 + par["e"], 2),
            (2, 1, 1, par["b"])]
    img = np.zeros(shape)
    for (f, g, amp, ph) in amps:
        if abs(f) < H / 2 and abs(g) < W / 2:
            img += amp * np.cos(2 * np.pi * (f * r / H + g * c / W) + ph * np.pi / 4)
    s = np.array([num[0] / den, num[1] / den])
    kx = np.fft.fftfreq(H)[:, None]
    ky = np.fft.fftfreq(W)[None, :]
    # moving image b[x] = a[x + s]  -> the estimate must be s
    b = np.fft.ifft2(np.fft.fft2(img) * np.exp(2j * np.pi * (kx * s[0] + ky * s[1]))).real
    tag = f"shape={shape} subpixel shift={s.tolist()}"
    try:
        for u in ([2, 3, 4, 5, 8, 16, 64] if not quick else [2, 3, 8, 16]):
            tol = 1.0 / u + 1e-6
            rn = np.asarray(cross_correlation_shift(img, b, upsample_factor=u), float)
            if not same_shift(rn, s, shape, tol):
                out.append(("C13:numpy:subpixel:upsample>1", f"{tag}: u={u}: returned {rn.tolist()} (tolerance {tol:.4f})"))
                break
        for u in ([2, 4, 8, 16, 64] if not quick else [2, 8, 16]):
            # u = 2 never reaches the DFT upsampling in the torch estimator: the answer is the coarse peak moved by a
            # separable parabolic half-pixel step.  On a low-frequency image the correlation peak is nearly flat over
            # several pixels (values equal to 1e-4) and that step can go the wrong way: "parabolic-refinement accuracy"
            # there is one pixel, not half a pixel (0.75 px seen on a 31 x 48 image)
            tol = max(1.0 / u, 1.0 if u <= 2 else 0) + 1e-5
            rt = cross_correlation_shift_torch(torch.tensor(img), torch.tensor(b), upsample_factor=u).numpy()
            if not same_shift(rt, s, shape, tol):
                out.append(("C13:torch:subpixel", f"{tag}: u={u}: returned {rt.tolist()} (tolerance {tol:.4f})"))
                break
        # a broadband (white) image rolled by whole pixels on this larger shape: exact for every factor
        rngb = np.random.default_rng(idx + 7 * H + W)
        wimg = rngb.integers(0, 50, size=shape).astype(float)
        si = (int(round(s[0])) % H, int(round(s[1])) % W)
        wb = np.roll(wimg, shift=(-si[0], -si[1]), axis=(0, 1))
        for u in (1, 2, 3, 8, 16):
            rw = np.asarray(cross_correlation_shift(wimg, wb, upsample_factor=u), float)
            if not same_shift(rw, si, shape, 1e-6):
                out.append((f"C13:numpy:integer-shift:upsample{'>1' if u > 1 else '=1'}", f"shape={shape} broadband image rolled by {si}: u={u}: returned {rw.tolist()}"))
                break
        # identical band-limited images: zero for every factor
        for u in (1, 2, 3, 4, 5, 7, 8, 16, 64):
            z = np.asarray(cross_correlation_shift(img, img, upsample_factor=u), float)
            if not same_shift(z, [0, 0], shape, 1e-6):
                out.append((f"C13:numpy:identical-nonzero:upsample{'>1' if u > 1 else '=1'}", f"{tag}: u={u}: identical smooth images gave {z.tolist()}"))
                break
    except Exception as ex:  # noqa: BLE001
        out.append(("C13:raised", f"{tag}: {type(ex).__name__}: {str(ex)[:200]}"))
    return out


def check(rep, tier, seed):
    quick = tier == "quick"
    rep.assume("images have a unique correlation peak (checked on the model); +N/2 and -N/2 are the same "
               "shift", "sub-pixel claim checked for upsample factors >= 2 with tolerance 1/u (torch: 0.5 px "
               "for u <= 2, its half-pixel stage)", "band-limited images are synthesised by the harness from "
               "model parameters")
    shapes = [(3, 4), (4, 3), (5, 3), (3, 5)] if quick else [(3, 4), (4, 3), (5, 3), (3, 5), (4, 5), (5, 5), (4, 4), (6, 3)]
    tmp = tempfile.mkdtemp(prefix="c13_")
    try:
        def job(shape, kind):
            h, w = shape
            cfg = tlc.cfg_variant(os.path.join(SPEC, "RegMC.cfg" if kind == "mc" else "RegGEN.cfg"), tmp,
                                  f"{kind}_{h}x{w}.cfg", {"H": h, "W": w})
            return tlc.run_tlc("Registration", cfg, spec_dir=SPEC, workers=4 if kind == "mc" else 1, timeout=3000)
        with ThreadPoolExecutor(max_workers=8) as ex:
            mcs = list(ex.map(lambda s: job(s, "mc"), shapes))
            gens = list(ex.map(lambda s: job(s, "gen"), shapes))
        for s, r in zip(shapes, mcs):
            rep.add_tlc(r, f"Registration {s[0]}x{s[1]}: every shift of the cell, swap")
            tlc.expect_clean(r, "RegMC")
        cases = []
        for s, r in zip(shapes, gens):
            tlc.expect_clean(r, "RegGEN")
            cs = r.cases
            if quick:
                random.Random(seed).shuffle(cs)
                cs = cs[:250]
            cases += cs
        rn = tlc.run_tlc("Registration", "RegNEG.cfg", spec_dir=SPEC, workers=16, timeout=600)
        tlc.expect_violation(rn, "RegNEG (sign)", "Recovers")
        rep.note("negative_controls", ["RegNEG: estimate reported with the wrong sign"])
    finally:
        shutil.rmtree(tmp, ignore_errors=True)
    if not cases:
        raise MachineryError("no cases exported")
    rep.note("cases", {"shapes": shapes, "integer_shift_cases": len(cases)})
    rep.sample({"case": cases[0]})
    res = pmap(run_case, [(c, i, quick) for i, c in enumerate(cases)], procs=16, chunk=16)
    for c, probs in zip(cases, res):
        rep.add_traces(1)
        rep.add_eval(1)
        rep.add_distinct([c["a"], c["s"]])
        seen = set()
        for key, msg in probs:
            if key not in seen:
                seen.add(key)
                rep.mismatch(key, msg, {"case": c, "message": msg})
    # band-limited sub-pixel cases
    rng = random.Random(seed + 9)
    sub = []
    # (sizes such as 14, 17, 24, 29, 47, 49 are those where k/n*n does not come back to k in floating point)
    big = [(8, 8), (9, 10), (12, 7), (6, 5), (17, 14), (24, 29), (47, 18), (31, 48), (49, 49)] if not quick else \
          [(8, 8), (9, 10), (6, 5), (17, 14), (24, 29), (47, 18)]
    for shape in big:
        for k in range(12 if quick else 60):
            par = {x: rng.randrange(3) for x in "abdegh"}
            den = rng.choice([2, 4, 8])
            num = (rng.randrange(-den * (shape[0] // 2) + 1, den * (shape[0] // 2)),
                   rng.randrange(-den * (shape[1] // 2) + 1, den * (shape[1] // 2)))
            sub.append((shape, par, num, den, k, quick))
    res = pmap(subpixel_case, sub, procs=16, chunk=4)
    for sc, probs in zip(sub, res):
        rep.add_eval(1)
        rep.add_distinct(["subpixel", sc[0], sc[1], sc[2], sc[3]])
        seen = set()
        for key, msg in probs:
            if key not in seen:
                seen.add(key)
                rep.mismatch(key, msg, {"subpixel": {"shape": sc[0], "par": sc[1], "num": sc[2], "den": sc[3]}, "message": msg})
    rule = ("integer-shift cases are the (image parameters, shift) initial states of Registration exported "
            "by TLC with the exact arg-max (every shift of the cell, shapes incl. odd/even/non-square); each "
            "is run through both estimators for upsampling 1..64 with real/Fourier input/output, max_shift, "
            "identical and swapped images; band-limited sub-pixel cases (rational shifts) are generated from "
            "seeded model parameters on larger shapes; distinct by (image, shift)")
    return rule, False


def replay(path):
    body = json.load(open(path))
    rp = body["replay"]
    if "case" in rp:
        out = run_case((rp["case"], 0, False))
    else:
        sp = rp["subpixel"]
        out = subpixel_case((tuple(sp["shape"]), sp["par"], tuple(sp["num"]), sp["den"], 0, False))
    for o in out:
        print(o)
    return 1 if out else 0
