"""C04 — direct ptychography.  DirectPtychoStream.tla (S->C).

TLC checks FunctionOfInputs / EachPixelOnce / Recombine on the streaming model for every mask,
kernel class and batch size (negative control: normaliser built per batch) and computes the
exact rolled, mean-subtracted integer images of the parallax oracle.  The replayer runs the real
reconstruct() for every kernel (and alias), upsampling factor and EVERY batch size 1..num_bf,
checks linearity, sub-mask recombination over every 2-block partition the model allows, and the
exact parallax cases against TLC's integer images.
"""
from __future__ import annotations

import contextlib
import io
import itertools
import json
import os
import random
import shutil
import tempfile
import warnings

import numpy as np

from harness.common import tlc
from harness.common.par import pmap
from harness.common.tlc import MachineryError

SPEC = os.path.join(tlc.SPECS, "directptycho")
ALIASES = {"ssb": ["single-sideband", "acbf", "aberration-corrected-bright-field"],
           "obf": ["optimum-bright-field"], "mf": ["matched-filter"],
           "prlx": ["parallax", "tcbf", "tilt-corrected-bright-field"], "icom": ["center-of-mass"]}
SINGLE = ("ssb", "prlx", "icom")
G = 6                 # detector grid (corner centred)
DK = 0.02             # 1/A
ENERGY = 80e3


def geometry():
    mask = np.zeros((G, G), bool)
    order = []
    for p in range(9):            # model pixel p+1 -> (ni, nj) = (p // 3 - 1, p % 3 - 1)
        ni, nj = p // 3 - 1, p % 3 - 1
        mask[ni % G, nj % G] = True
        order.append((ni % G, nj % G))
    return mask, order


def make(vbf, ds, ab=None, rot=0.0, semi_px=2.2, soft=True):
    from quantem.core.datastructures.dataset2d import Dataset2d
    from quantem.core.datastructures.dataset3d import Dataset3d
    from quantem.core.utils.utils import electron_wavelength_angstrom
    from quantem.diffractive_imaging.direct_ptychography import DirectPtychography
    lam = electron_wavelength_angstrom(ENERGY)
    mask, _ = geometry()
    vd = Dataset3d.from_array(np.asarray(vbf, dtype=np.float32), sampling=(1, ds[0], ds[1]), units=("index", "A", "A"))
    md = Dataset2d.from_array(mask.astype(float), sampling=(DK, DK), units=("A^-1", "A^-1"))
    d = DirectPtychography.from_virtual_bfs(vd, md, energy=ENERGY, rotation_angle=rot, aberration_coefs=dict(ab or {}),
                                            semiangle_cutoff=1e3 * lam * DK * semi_px, soft_edges=soft,
                                            crop_bf_mask=False, rng=0, verbose=0)
    return d, lam


def lib_order():
    """BF pixels in the library's order (row-major nonzero of the mask) -> model pixel number."""
    mask, order = geometry()
    ii, jj = np.nonzero(mask)
    return [order.index((int(i), int(j))) for i, j in zip(ii, jj)]


def stream_case(arg):
    """Batch invariance, aliases, linearity, recombination for one (scan shape, kernel, upsampling)."""
    shape, kern, up, variant, quick = arg
    warnings.filterwarnings("ignore")
    import torch
    out = []
    sx, sy = shape
    rng = np.random.default_rng(100 + variant)
    v1 = rng.integers(0, 9, size=(9, sx, sy)).astype(np.float32)
    v2 = rng.integers(0, 9, size=(9, sx, sy)).astype(np.float32)
    ds = (10.0, 12.0)
    ab = [{}, {"C10": 150.0}, {"C10": -80.0, "C12": 60.0, "phi12": 0.4}][variant % 3]
    rot = [0.0, 17.0][variant % 2]
    tag = f"scan={sx}x{sy} kernel={kern} up={up} ab={ab} rot={rot}"
    kw = dict(deconvolution_kernel=kern, upsampling_factor=up, verbose=0)
    if variant % 4 == 3:
        kw.update(q_lowpass=0.04, q_highpass=0.005)
    if kern == "prlx":
        # with zero aberrations the contrast-transfer sign sign(sin(chi)) is identically zero
        kw["parallax_flip_phase"] = bool(ab) and variant % 2 == 1
    try:
        with contextlib.redirect_stdout(io.StringIO()):
            d1, _ = make(v1, ds, ab, rot)
            ref = d1.reconstruct(max_batch_size=None, **kw).corrected_stack.clone()
            scale = float(ref.abs().max())
            if not np.isfinite(scale) or scale == 0.0:
                out.append(("C04:degenerate", f"{tag}: reconstruction is identically zero / non-finite (scale {scale})"))
                return out
            tol = 2e-5 * scale
            # every batch size
            for bsz in list(range(1, 10)) + [12]:
                r = d1.reconstruct(max_batch_size=bsz, **kw).corrected_stack
                if r.shape != ref.shape or float((r - ref).abs().max()) > tol:
                    out.append((f"C04:batch-invariance:{kern}", f"{tag}: batch size {bsz} differs from full batch by "
                                f"{float((r - ref).abs().max()):.3g} (scale {scale:.3g})"))
                    break
            # repeated call gives the same answer (no state carried between reconstructions)
            r = d1.reconstruct(max_batch_size=None, **kw).corrected_stack
            if float((r - ref).abs().max()) > tol:
                out.append((f"C04:repeat:{kern}", f"{tag}: a second identical call differs by {float((r - ref).abs().max()):.3g}"))
            if not np.array_equal(d1.vbf_stack.numpy(), v1):
                out.append(("C04:inputs-modified", f"{tag}: the stack was modified by reconstruct"))
            # aliases
            for al in ALIASES[kern][: (1 if quick else None)]:
                r = d1.reconstruct(max_batch_size=4, **{**kw, "deconvolution_kernel": al}).corrected_stack
                if float((r - ref).abs().max()) > tol:
                    out.append((f"C04:alias:{al}", f"{tag}: alias {al} differs"))
            # linearity in the stack
            d2, _ = make(v2, ds, ab, rot)
            r2 = d2.reconstruct(max_batch_size=3, **kw).corrected_stack
            d3, _ = make(2.0 * v1 - 3.0 * v2, ds, ab, rot)
            r3 = d3.reconstruct(max_batch_size=5, **kw).corrected_stack
            lin = 2.0 * ref - 3.0 * r2
            if float((r3 - lin).abs().max()) > 2e-4 * max(scale, float(lin.abs().max())):
                out.append((f"C04:linearity:{kern}", f"{tag}: not linear in the stack ({float((r3 - lin).abs().max()):.3g})"))
            # recombination over 2-block partitions of the mask (single-pass kernels)
            if kern in SINGLE:
                from quantem.diffractive_imaging.complex_probe import evaluate_probe, polar_coordinates, spatial_frequencies
                full = d1.bf_mask.clone()
                ii, jj = torch.nonzero(full, as_tuple=True)
                kxa, kya = spatial_frequencies(d1.gpts, d1.sampling, rotation_angle=rot, device="cpu")
                k, phi = polar_coordinates(kxa, kya)
                pk = evaluate_probe(k * d1.wavelength, phi, d1.semiangle_cutoff, d1.angular_sampling, d1.wavelength,
                                    aberration_coefs=d1.aberration_coefs)
                wpix = pk.abs().square()[full]
                W = float(wpix.sum())
                parts = [set(c) for r_ in (1, 2, 4) for c in itertools.combinations(range(9), r_)]
                random.Random(variant).shuffle(parts)
                for part in parts[: (4 if quick else 14)]:
                    m1 = full.clone()
                    m2 = full.clone()
                    for p in range(9):
                        (m2 if p in part else m1)[ii[p], jj[p]] = False
                    s1 = d1.reconstruct(bf_mask=m1, max_batch_size=2, **kw).corrected_stack.clone()
                    s2 = d1.reconstruct(bf_mask=m2, max_batch_size=None, **kw).corrected_stack.clone()
                    w1 = float(wpix[[p for p in range(9) if p in part]].sum())
                    w2 = W - w1
                    idx1 = [p for p in range(9) if p in part]
                    idx2 = [p for p in range(9) if p not in part]
                    if s1.shape[0] != len(idx1) or s2.shape[0] != len(idx2):
                        out.append((f"C04:recombine:{kern}", f"{tag}: sub-mask stacks have {s1.shape[0]}+{s2.shape[0]} images"))
                        break
                    rec = W * ref.sum(0)
                    got = w1 * s1.sum(0) + w2 * s2.sum(0)
                    if float((rec - got).abs().max()) > 2e-4 * float(rec.abs().max() + 1e-30):
                        out.append((f"C04:recombine:{kern}", f"{tag}: sub-masks {sorted(part)} / rest do not recombine "
                                    f"({float((rec - got).abs().max()):.3g} of {float(rec.abs().max()):.3g})"))
                        break
    except Exception as ex:  # noqa: BLE001
        out.append(("C04:raised", f"{tag}: {type(ex).__name__}: {str(ex)[:200]}"))
    return out


def parallax_case(arg):
    """Exact parallax oracle: TLC's rolled integer images."""
    case, idx = arg
    warnings.filterwarnings("ignore")
    import torch
    out = []
    sx, sy, m = case["sx"], case["sy"], case["m"]
    vbf_model = np.array(case["vbf"], dtype=np.float32)              # model pixel order
    rolled = np.array(case["rolled"], dtype=np.float64) / (sx * sy)  # roll(v - mean)
    order = lib_order()
    vbf = vbf_model[order]
    want = rolled[order]
    ds = (10.0, 12.5)
    tag = f"scan={sx}x{sy} m={m} case={idx}"
    try:
        with contextlib.redirect_stdout(io.StringIO()):
            from quantem.core.utils.utils import electron_wavelength_angstrom
            lam = electron_wavelength_angstrom(ENERGY)
            from quantem.diffractive_imaging.complex_probe import evaluate_probe, polar_coordinates, spatial_frequencies
            # zero aberration: sum of mean-subtracted images / W
            d0, _ = make(vbf, ds, {}, 0.0)
            r0 = d0.reconstruct(deconvolution_kernel="prlx", parallax_flip_phase=False, verbose=0, max_batch_size=4).corrected_stack
            kxa, kya = spatial_frequencies(d0.gpts, d0.sampling, rotation_angle=0.0, device="cpu")
            k, phi = polar_coordinates(kxa, kya)
            W = float(evaluate_probe(k * lam, phi, d0.semiangle_cutoff, d0.angular_sampling, lam, aberration_coefs={})
                      .abs().square()[d0.bf_mask].sum())
            zero = vbf - vbf.mean(axis=(1, 2), keepdims=True)
            if float(np.abs(r0.numpy() * W - zero).max()) > 1e-3:
                out.append(("C04:parallax:zero-aberration", f"{tag}: W*stack differs from the mean-subtracted images by "
                            f"{float(np.abs(r0.numpy() * W - zero).max()):.3g}"))
            if float(np.abs(d0.corrected_bf.numpy() * W - zero.sum(0)).max()) > 2e-3:
                out.append(("C04:parallax:zero-aberration-sum", f"{tag}: W*corrected_bf differs from the sum of mean-subtracted images"))
            # defocus chosen so that the geometric shift is m scan pixels per detector pixel index:
            # shift = C10 * theta,  theta = lambda * k   ->  C10 * lambda * DK = m * ds (per axis)
            if abs(ds[0] - ds[1]) < 1e-12:
                abset = {"C10": m * ds[0] / (lam * DK)}
                d1, _ = make(vbf, ds, abset, 0.0)
            else:
                # anisotropic scan sampling: use the isotropic case on a square-sampled copy
                ds2 = (10.0, 10.0)
                abset = {"C10": m * ds2[0] / (lam * DK)}
                d1, _ = make(vbf, ds2, abset, 0.0)
            for bsz in (None, 2):
                r1 = d1.reconstruct(deconvolution_kernel="prlx", parallax_flip_phase=False, verbose=0, max_batch_size=bsz).corrected_stack
                dev = float(np.abs(r1.numpy() * W - want).max())
                if dev > 2e-3:
                    out.append(("C04:parallax:defocus-roll", f"{tag}: W*stack differs from the rolled mean-subtracted images by {dev:.3g} "
                                f"(aberrations {abset})"))
                    break
    except Exception as ex:  # noqa: BLE001
        out.append(("C04:parallax:raised", f"{tag}: {type(ex).__name__}: {str(ex)[:200]}"))
    return out


def astig_case(arg):
    """Parallax with defocus AND astigmatism (any axis angle), float oracle: each mean-subtracted virtual image is
    translated by grad(chi)/(2 pi) at its detector pixel, where chi is the library's own aberration SURFACE
    (aberration_surface) differentiated numerically - not the analytic gradient routine the reconstruction uses.
    The translation sign is calibrated on the defocus-only case against TLC's exact rolled images."""
    case, idx, abset, rot = arg
    warnings.filterwarnings("ignore")
    import torch
    out = []
    sx, sy, m = case["sx"], case["sy"], case["m"]
    order = lib_order()
    vbf = np.array(case["vbf"], dtype=np.float32)[order]
    want_exact = (np.array(case["rolled"], dtype=np.float64) / (sx * sy))[order]
    ds = (10.0, 10.0)
    tag = f"scan={sx}x{sy} ab={abset} rot={rot} case={idx}"
    try:
        with contextlib.redirect_stdout(io.StringIO()):
            from quantem.core.utils.utils import electron_wavelength_angstrom
            from quantem.diffractive_imaging.complex_probe import (aberration_surface, evaluate_probe, polar_coordinates,
                                                                   spatial_frequencies)
            lam = electron_wavelength_angstrom(ENERGY)

            def oracle(d, ab, rot_deg, sign):
                kxa, kya = spatial_frequencies(d.gpts, d.sampling, rotation_angle=rot_deg, device="cpu")
                kxa, kya = kxa.double(), kya.double()
                h = 1e-4 * DK

                def chi(kx, ky):
                    k, phi = polar_coordinates(kx, ky)
                    return aberration_surface(k * lam, phi, lam, {k_: torch.tensor(float(v), dtype=torch.float64) for k_, v in ab.items()})
                gx = (chi(kxa + h, kya) - chi(kxa - h, kya)) / (2 * h) / (2 * np.pi)     # Angstrom
                gy = (chi(kxa, kya + h) - chi(kxa, kya - h)) / (2 * h) / (2 * np.pi)
                sh = torch.stack((gx[d.bf_mask], gy[d.bf_mask]), -1).numpy()             # (nbf, 2) in Angstrom
                qx = np.fft.fftfreq(sx, d=ds[0])[:, None]
                qy = np.fft.fftfreq(sy, d=ds[1])[None, :]
                k, phi = polar_coordinates(kxa, kya)
                W = float(evaluate_probe(k.float() * lam, phi.float(), d.semiangle_cutoff, d.angular_sampling, lam, aberration_coefs={})
                          .abs().square()[d.bf_mask].sum())
                zero = vbf - vbf.mean(axis=(1, 2), keepdims=True)
                res = np.empty_like(zero, dtype=np.float64)
                for p in range(zero.shape[0]):
                    ramp = np.exp(sign * 2j * np.pi * (qx * sh[p, 0] + qy * sh[p, 1]))
                    res[p] = np.fft.ifft2(np.fft.fft2(zero[p]) * ramp).real
                return res, W
            # sign calibration on the exact defocus-only case (rotation 0)
            c10 = m * ds[0] / (lam * DK)
            d0, _ = make(vbf, ds, {"C10": c10}, 0.0)
            sign = None
            for sg in (+1, -1):
                o, W = oracle(d0, {"C10": c10}, 0.0, sg)
                if np.abs(o - want_exact).max() < 1e-6 * max(1.0, np.abs(want_exact).max()):
                    sign = sg
            if sign is None:
                raise MachineryError("float parallax oracle does not reproduce TLC's exact defocus case with either sign")
            d1, _ = make(vbf, ds, abset, rot)
            polar = {{"astigmatism": "C12", "astigmatism_angle": "phi12"}.get(k_, k_): v for k_, v in abset.items()}
            o, W = oracle(d1, polar, rot, sign)
            for bsz in (None, 2):
                r1 = d1.reconstruct(deconvolution_kernel=["prlx", "parallax", "tcbf"][idx % 3], parallax_flip_phase=False, verbose=0,
                                    max_batch_size=bsz).corrected_stack.numpy() * W
                dev = float(np.abs(r1 - o).max())
                if dev > 2e-3 * max(1.0, float(np.abs(o).max())):
                    kind = "astigmatism" if (abset.get("C12") or abset.get("astigmatism")) else "defocus"
                    out.append((f"C04:parallax:{kind}-shift", f"{tag}: W*stack differs from the images translated by grad(chi)/2pi by {dev:.3g} "
                                f"(scale {float(np.abs(o).max()):.3g})"))
                    break
    except MachineryError:
        raise
    except Exception as ex:  # noqa: BLE001
        out.append(("C04:parallax:raised", f"{tag}: {type(ex).__name__}: {str(ex)[:200]}"))
    return out


AB_VAL = {"C10": {0: 0.0, 1: 150.0, 2: -80.0}, "C12": {0: 0.0, 1: 60.0, 2: 35.0}}
ROT_VAL = {0: 0.0, 1: 17.0}


def hyper_case(arg):
    """HyperState.tla: reconstruct(override...) on an object built with `initial` equals a fresh object built with
    the effective hyper-parameters; a call leaves the stored layers alone."""
    case, idx = arg
    warnings.filterwarnings("ignore")
    out = []
    ini = case["initial"] if isinstance(case["initial"], dict) else {}
    ovr = case["ovr"] if isinstance(case["ovr"], dict) else {}
    eff = case["eff"]
    tag = f"initial={ini} rot0={case['rot0']} override={ovr} rot_override={case['rovr']}"
    sx, sy = [(7, 8), (6, 5)][idx % 2]
    rng = np.random.default_rng(7 + idx % 5)
    v1 = rng.integers(0, 9, size=(9, sx, sy)).astype(np.float32)
    ds = (10.0, 12.0)
    kern = ["prlx", "ssb", "obf"][idx % 3]
    kw = dict(deconvolution_kernel=kern, upsampling_factor=1 + idx % 2, verbose=0, max_batch_size=[None, 4][idx % 2])
    if kern == "prlx":
        kw["parallax_flip_phase"] = False

    def ab_of(layer, explicit_zero=True):
        d = {k: AB_VAL[k][int(v)] for k, v in layer.items() if explicit_zero or int(v) != 0}
        d["phi12"] = 0.4
        return d
    try:
        with contextlib.redirect_stdout(io.StringIO()):
            a, _ = make(v1, ds, ab_of(ini), ROT_VAL.get(case["rot0"], 0.0))
            # an unrelated first call with another override (the model's first Reconstruct step)
            a.reconstruct(override_aberration_coefs={"C10": 33.0}, override_rotation_angle=5.0, **kw)
            okw = {}
            if ovr or idx % 2:
                okw["override_aberration_coefs"] = {k: AB_VAL[k][int(v)] for k, v in ovr.items()}
            if case["rovr"] != -1:
                okw["override_rotation_angle"] = ROT_VAL[case["rovr"]]
            ra = a.reconstruct(**okw, **kw).corrected_stack.clone()
            b, _ = make(v1, ds, ab_of(eff, explicit_zero=bool(idx % 2)), ROT_VAL.get(case["effrot"], 0.0))
            rb = b.reconstruct(**kw).corrected_stack.clone()
            scale = float(rb.abs().max())
            if ra.shape != rb.shape or float((ra - rb).abs().max()) > 2e-5 * max(scale, 1e-30):
                zero = sorted(k for k, v in ovr.items() if int(v) == 0)
                out.append((f"C04:hyper:override{':explicit-zero' if zero else ''}", f"{tag} kernel={kern}: reconstruct with the override differs "
                            f"from a fresh object built with the effective values {eff}/{case['effrot']} by "
                            f"{float((ra - rb).abs().max()):.3g} (scale {scale:.3g})"))
            # the stored layers are untouched: the next call without override sees the construction values
            rc = a.reconstruct(**kw).corrected_stack.clone()
            c, _ = make(v1, ds, ab_of(ini), ROT_VAL.get(case["rot0"], 0.0))
            rd = c.reconstruct(**kw).corrected_stack.clone()
            if float((rc - rd).abs().max()) > 2e-5 * max(float(rd.abs().max()), 1e-30):
                out.append(("C04:hyper:call-changed-state", f"{tag} kernel={kern}: after calls with overrides, a call without "
                            f"override differs from a fresh object by {float((rc - rd).abs().max()):.3g}"))
    except Exception as ex:  # noqa: BLE001
        out.append(("C04:hyper:raised", f"{tag}: {type(ex).__name__}: {str(ex)[:200]}"))
    return out


def check(rep, tier, seed):
    quick = tier == "quick"
    rep.assume("nine bright-field pixels on a 6x6 corner-centred detector grid; scan sampling chosen so the "
               "aperture overlaps are non-trivial", "results compared with 2e-5 (batch) / 2e-4 (linearity, "
               "recombination) relative tolerance, float32/complex64", "exact parallax oracle at rotation "
               "angle 0 with defocus giving integer pixel shifts")
    tmp = tempfile.mkdtemp(prefix="c04_")
    try:
        r = tlc.run_tlc("DirectPtychoStream", "DPMC.cfg", spec_dir=SPEC, workers=8, timeout=900)
        rep.add_tlc(r, "DirectPtychoStream: every mask x kernel x batch size")
        tlc.expect_clean(r, "DPMC")
        rn = tlc.run_tlc("DirectPtychoStream", "DPNEG.cfg", spec_dir=SPEC, workers=8, timeout=900)
        tlc.expect_violation(rn, "DPNEG (per-batch normaliser)", "FunctionOfInputs")
        rep.note("negative_controls", ["DPNEG: two-pass normaliser built per batch"])
        cases = []
        for (sx, sy) in ([(7, 8)] if quick else [(7, 8), (8, 8), (5, 6)]):
            g = tlc.cfg_variant(os.path.join(SPEC, "DPGEN.cfg"), tmp, "gen.cfg", {"SX": sx, "SY": sy})
            rg = tlc.run_tlc("DirectPtychoStream", g, spec_dir=SPEC, workers=1, timeout=900)
            tlc.expect_clean(rg, "DPGEN")
            cases += rg.cases
    finally:
        shutil.rmtree(tmp, ignore_errors=True)
    if not cases:
        raise MachineryError("no parallax cases exported")
    if quick:
        random.Random(seed).shuffle(cases)
        cases = cases[:8]
    shapes = [(7, 8), (6, 5)] if quick else [(7, 8), (6, 5), (8, 8), (9, 7)]
    jobs = []
    v = 0
    for shape in shapes:
        for kern in ("ssb", "obf", "mf", "prlx", "icom"):
            for up in ((1, 2) if quick else (1, 2, 3)):
                jobs.append((shape, kern, up, v, quick))
                v += 1
    rep.note("cases", {"stream_jobs": len(jobs), "parallax_cases": len(cases), "batch_sizes": "1..9 and 12"})
    rep.sample({"stream_job": {"scan": jobs[0][0], "kernel": jobs[0][1], "upsampling": jobs[0][2]}})
    rep.sample({"parallax_case": {k: cases[0][k] for k in ("sx", "sy", "m", "ni", "nj")}, "first_image": cases[0]["vbf"][0]})
    res = pmap(stream_case, jobs, procs=16, chunk=1)
    for j, probs in zip(jobs, res):
        rep.add_traces(1)
        rep.add_eval(12)
        rep.add_distinct(["stream", j[0], j[1], j[2], j[3]])
        seen = set()
        for key, msg in probs:
            if key not in seen:
                seen.add(key)
                rep.mismatch(key, msg, {"job": {"scan": j[0], "kernel": j[1], "up": j[2], "variant": j[3]}, "message": msg})
    res = pmap(parallax_case, [(c, i) for i, c in enumerate(cases)], procs=16, chunk=1)
    for c, probs in zip(cases, res):
        rep.add_traces(1)
        rep.add_eval(3)
        rep.add_distinct(["parallax", c["vbf"], c["m"]])
        for key, msg in probs:
            rep.mismatch(key, msg, {"parallax_case": c, "message": msg})
    # defocus + astigmatism at any axis angle, float oracle calibrated on TLC's exact defocus cases
    # (also sets that name ONE coefficient only, and the alias spelling of the astigmatism magnitude)
    absets = [{"C10": 120.0, "C12": 70.0, "phi12": 0.4}, {"C10": -90.0, "C12": 55.0, "phi12": -1.1}, {"C12": 80.0, "phi12": 0.9},
              {"C10": 60.0, "C12": 40.0, "phi12": 0.0}, {"C10": 140.0}, {"C12": 70.0}, {"astigmatism": 55.0}]
    ajobs = [(cases[i % len(cases)], i, absets[i % len(absets)], [0.0, 17.0][(i // len(absets)) % 2]) for i in range(14 if quick else 70)]
    res = pmap(astig_case, ajobs, procs=16, chunk=1)
    for j, probs in zip(ajobs, res):
        rep.add_traces(1)
        rep.add_eval(2)
        rep.add_distinct(["astig", j[0]["vbf"], j[2], j[3]])
        for key, msg in probs:
            rep.mismatch(key, msg, {"astig_case": {"case": j[0], "ab": j[2], "rot": j[3]}, "message": msg})
    # hyper-parameter layers (HyperState.tla)
    rh = tlc.run_tlc("HyperState", "HyperMC.cfg", spec_dir=SPEC, workers=8, timeout=900)
    rep.add_tlc(rh, "HyperState: OverrideWins / RestFromBelow / RotationLayers / CallsArePure")
    tlc.expect_clean(rh, "HyperMC")
    rhn = tlc.run_tlc("HyperState", "HyperNEG.cfg", spec_dir=SPEC, workers=8, timeout=900)
    tlc.expect_violation(rhn, "HyperNEG (falsy override values dropped)", "OverrideWins")
    rhg = tlc.run_tlc("HyperState", "HyperGEN.cfg", spec_dir=SPEC, workers=1, timeout=900)
    tlc.expect_clean(rhg, "HyperGEN")
    hcases = rhg.cases
    if not hcases:
        raise MachineryError("no hyper-parameter cases exported")
    random.Random(seed).shuffle(hcases)
    hcases = hcases[: (160 if quick else 2304)]
    rep.note("hyper_cases", len(hcases))
    res = pmap(hyper_case, [(c, i) for i, c in enumerate(hcases)], procs=16, chunk=8)
    for c, probs in zip(hcases, res):
        rep.add_traces(1)
        rep.add_eval(4)
        rep.add_distinct(["hyper", c["initial"], c["rot0"], c["ovr"], c["rovr"]])
        for key, msg in probs:
            rep.mismatch(key, msg, {"hyper_case": c, "message": msg})
    rule = ("stream jobs: scan shape x kernel x upsampling (1..3) with aberration/rotation/filter variants, each "
            "run for every batch size 1..9 (and > num_bf), aliases, a repeated call, linearity on two integer "
            "stacks, and recombination over sampled 2-block partitions of the 9-pixel mask; parallax cases: "
            "integer stacks and rolled images computed by TLC; hyper-parameter cases: (construction layer, override "
            "layer) pairs of HyperState.tla incl. explicit zeros, each compared with a fresh object built with the "
            "effective values; distinct by job / case")
    return rule, False


def replay(path):
    body = json.load(open(path))
    rp = body["replay"]
    if "job" in rp:
        j = rp["job"]
        out = stream_case((tuple(j["scan"]), j["kernel"], j["up"], j["variant"], False))
    elif "astig_case" in rp:
        a = rp["astig_case"]
        out = astig_case((a["case"], 0, a["ab"], a["rot"]))
    elif "hyper_case" in rp:
        out = hyper_case((rp["hyper_case"], 0)) + hyper_case((rp["hyper_case"], 1)) + hyper_case((rp["hyper_case"], 2))
    else:
        out = parallax_case((rp["parallax_case"], 0))
    for o in out:
        print(o)
    return 1 if out else 0
