"""Tiny deterministic synthetic fixture for iterative ptychography checks.

Three entry points (see the docstrings for details):

``simulate(...)``
    Independent NumPy (float64) implementation of the multislice, mixed-state
    ptychographic forward model.  It does NOT call quantem; it only mirrors the
    library's *conventions* (documented inline) so that the library's own forward
    pipeline evaluated at the simulated object/probe reproduces the simulated
    diffraction intensities.

``build(sim, ...)``
    Builds ``Dataset4dstem -> PtychographyDatasetRaster -> ObjectPixelated /
    ProbePixelated / DetectorPixelated -> Ptychography.from_models(...).preprocess(...)``
    silently and plot-free, optionally installing the ground truth through the
    library's public constructors / setters.

``forward_loss(ptycho, loss_type, batch_size)``
    One pass of the library's own forward pipeline over all patterns (the same
    calls ``Ptychography.reconstruct`` performs per batch), no optimizer step.

Conventions of the library that the independent model mirrors
--------------------------------------------------------------
* object array: (num_slices, Ny, Nx); complex ``exp(i*V)`` for obj_type "complex" /
  "pure_phase", the real potential ``V`` for "potential".
* object shape for ``obj_padding_px=(0, 0)``:  ``n = floor(scan_step_px * (gpts - 1))``,
  bumped to the next even number, then symmetrically padded by the library so
  that the full shape is a multiple of 8 (``adjust_padding_power2`` with level 3;
  the pad actually used is ``ptycho.obj_padding_px``).
* scan positions (pixels): ``arange(gpts) * scan_step_px + pad``; row-major raster
  (first scan axis = object rows), ``positions[:, 0]`` is the row coordinate.
* patch extraction: ``obj[(round(r) + fftfreq_idx(Ry)) % Ny, (round(c) + fftfreq_idx(Rx)) % Nx]``
  i.e. the probe array is *corner centred* (origin at index [0, 0]) and the patch wraps
  around the object edges.
* sub-pixel shift: probe is Fourier-shifted by ``+ (pos - round(pos))`` using the plain
  ``fftfreq`` grid (including the unsymmetrised Nyquist term).
* multislice: transmit, then (for every slice but the last) Fresnel-propagate with
  ``exp(-i*pi*lambda*dz*k^2)``, ``k = fftfreq(R, d=sampling)``.
* far field: ``|fft2(exit, norm="ortho")|^2`` summed incoherently over probe modes and
  ``fftshift``-ed (DC at pixel [Ry//2, Rx//2]) -- this is also the orientation the
  library expects from a ``Dataset4dstem`` of shape (gy, gx, Ry, Rx).
"""

from __future__ import annotations

import math
import time

import numpy as np

__all__ = [
    "simulate",
    "resimulate",
    "build",
    "forward_loss",
    "expected_loss",
    "embed_object",
    "full_padding",
    "freeze_gc",
    "wavelength_angstrom",
    "LOSS_TYPES",
    "DEFAULT_OPTIMIZER_PARAMS",
]

LOSS_TYPES = ("l2_amplitude", "l1_amplitude", "l2_intensity", "l1_intensity", "poisson")

# format accepted by Ptychography.reconstruct(optimizer_params=...): keys "object" / "probe" /
# "dataset"; "type" in {"adam", "adamw", "sgd", "none"} (or an optimizer class); every other
# entry is forwarded to the torch optimizer.  (copy.deepcopy before mutating)
DEFAULT_OPTIMIZER_PARAMS = {
    "object": {"type": "adam", "lr": 5e-3},
    "probe": {"type": "adam", "lr": 1e-3},
}

_POWER2_DIV = 8  # PtychographyBase._obj_padding_force_power2_level == 3  ->  2**3


# --------------------------------------------------------------------------------------
# independent physics helpers (NumPy only)
# --------------------------------------------------------------------------------------
def wavelength_angstrom(energy_ev: float) -> float:
    """Relativistic electron wavelength in Angstrom (CODATA constants, independent
    of quantem.core.utils.utils.electron_wavelength_angstrom)."""
    hc = 12398.419843320026  # eV * Angstrom
    mc2 = 510998.95  # eV
    return hc / math.sqrt(energy_ev * (2.0 * mc2 + energy_ev))


def _fft_index(n: int) -> np.ndarray:
    """[0, 1, ..., ceil(n/2)-1, -floor(n/2), ..., -1] (corner-centred pixel offsets)."""
    return np.fft.fftfreq(n, d=1.0 / n).round().astype(int)


def _crop_shape_1d(span_px: float) -> int:
    n = int(math.floor(span_px + 1e-6))
    return n + (n % 2)


def _pad_to_multiple(n: int, pad: int, div: int = _POWER2_DIV) -> int:
    """Mirror of the library's symmetric padding adjustment: returns the pad actually
    used so that (n + 2*pad) % div == 0.  n is always even here."""
    rem = (n + 2 * pad) % div
    if rem != 0:
        pad += (div - rem) // 2
    if (n + 2 * pad) % div != 0:
        raise ValueError(f"cannot pad {n} (+2*{pad}) to a multiple of {div}")
    return pad


def full_padding(sim: dict, obj_padding_px=(0, 0)) -> tuple[int, int]:
    """The padding (per side, pixels) the library will really use for a requested
    ``obj_padding_px`` (it rounds the full object shape up to a multiple of 8)."""
    return tuple(
        _pad_to_multiple(int(n), int(p)) for n, p in zip(sim["obj_shape_crop"], obj_padding_px)
    )


def _make_probe(roi, sampling, wavelength, semiangle_mrad, defocus, num_modes, weights):
    """Corner-centred aperture probe(s) with defocus; higher modes are obtained by
    multiplying the aperture function with low-order polynomials in q and are then
    orthogonalised (Gram-Schmidt) so that the library's default
    ``orthogonalize_probe`` hard constraint is a no-op at the ground truth."""
    ry, rx = roi
    qy = np.fft.fftfreq(ry, d=sampling[0])
    qx = np.fft.fftfreq(rx, d=sampling[1])
    q2 = qy[:, None] ** 2 + qx[None, :] ** 2
    q = np.sqrt(q2)
    q_probe = semiangle_mrad * 1e-3 / wavelength
    dq = math.sqrt((qy[1] - qy[0]) * (qx[1] - qx[0]))
    aperture = np.sqrt(np.clip((q_probe - q) / dq + 0.5, 0.0, 1.0))
    chi = math.pi * wavelength * q2 * (-defocus)  # C10 = -defocus
    base = aperture * np.exp(-1j * chi)
    polys = [
        np.ones_like(q2),
        (qy[:, None] + 0.5j * qx[None, :]) / q_probe,
        (qx[None, :] - 0.5j * qy[:, None]) / q_probe,
        (qy[:, None] * qx[None, :]) / q_probe**2,
    ]
    if num_modes > len(polys):
        raise ValueError(f"at most {len(polys)} probe modes supported")
    modes = []
    for m in range(num_modes):
        v = np.fft.ifft2(base * polys[m])
        for u in modes:
            v = v - np.vdot(u, v) / np.vdot(u, u) * u
        modes.append(v)
    probe = np.stack(modes)
    w = np.asarray(weights[:num_modes], dtype=float)
    w = w / w.sum()
    norms = np.sqrt(np.sum(np.abs(probe) ** 2, axis=(1, 2)))
    probe = probe / norms[:, None, None] * np.sqrt(w)[:, None, None]
    return probe, w


def _propagators(roi, sampling, wavelength, thicknesses):
    ky = np.fft.fftfreq(roi[0], d=sampling[0])
    kx = np.fft.fftfreq(roi[1], d=sampling[1])
    k2 = ky[:, None] ** 2 + kx[None, :] ** 2
    out = np.empty((len(thicknesses),) + tuple(roi), dtype=complex)  # (S-1, Ry, Rx)
    for s, dz in enumerate(thicknesses):
        out[s] = np.exp(-1j * math.pi * wavelength * dz * k2)
    return out


def _fourier_shift(probe, shift_rc):
    """Shift probe(s) (..., Ry, Rx) by +shift_rc pixels using the plain fftfreq ramp."""
    ry, rx = probe.shape[-2:]
    ky = np.fft.fftfreq(ry)
    kx = np.fft.fftfreq(rx)
    ramp = np.exp(-2j * np.pi * ky * shift_rc[0])[:, None] * np.exp(-2j * np.pi * kx * shift_rc[1])[
        None, :
    ]
    return np.fft.ifft2(np.fft.fft2(probe) * ramp)


def _forward_numpy(obj, probe, positions_px, props):
    """obj (S,Ny,Nx) complex, probe (M,Ry,Rx) corner centred, positions (J,2) -> (J,Ry,Rx)."""
    num_slices, ny, nx = obj.shape
    _, ry, rx = probe.shape
    iy = _fft_index(ry)
    ix = _fft_index(rx)
    out = np.empty((positions_px.shape[0], ry, rx))
    for j, (pr, pc) in enumerate(positions_px):
        r0 = int(np.rint(pr))  # round-half-even like torch.round; ties are avoided anyway
        c0 = int(np.rint(pc))
        rows = (r0 + iy) % ny
        cols = (c0 + ix) % nx
        frac = (pr - r0, pc - c0)
        wave = probe if (frac[0] == 0.0 and frac[1] == 0.0) else _fourier_shift(probe, frac)
        for s in range(num_slices):
            patch = obj[s][np.ix_(rows, cols)]
            wave = wave * patch[None]
            if s < num_slices - 1:
                wave = np.fft.ifft2(np.fft.fft2(wave) * props[s][None])
        far = np.fft.fft2(wave, norm="ortho")
        out[j] = np.fft.fftshift(np.sum(np.abs(far) ** 2, axis=0))
    return out


# --------------------------------------------------------------------------------------
# 1. simulate
# --------------------------------------------------------------------------------------
def simulate(
    gpts=(4, 4),
    roi=(8, 8),
    num_slices=1,
    num_probe_modes=1,
    obj_type="complex",
    step_px=2,
    fractional=False,
    slice_thickness=10.0,
    energy=80e3,
    sampling=0.5,
    seed=0,
    semiangle_cutoff=None,
    defocus=30.0,
    probe_intensity=1.0e3,
    probe_mode_weights=(0.7, 0.2, 0.07, 0.03),
    allow_edge=False,
    allow_half=False,
) -> dict:
    """Independent NumPy simulation of a tiny 4D-STEM ptychography data set.
    (allow_edge: permit a scan position equal to the object size N, which is position 0 of the
    periodic object; allow_half: permit exact half-pixel positions.)

    Parameters
    ----------
    gpts : scan grid (gy, gx).  roi : detector / probe shape (Ry, Rx) -- use even numbers.
    step_px : scan step in object pixels.  With ``fractional=True`` the step becomes
        ``(step_px - 0.3, step_px - 0.4)`` (rows, cols) so that positions are non-integer
        (and different along the two axes).
    sampling : real-space pixel size in Angstrom (a number, or (row, col) for anisotropic pixels); the reciprocal sampling is
        ``1 / (roi * sampling)`` per axis.
    semiangle_cutoff : mrad; default puts the aperture edge at 0.5 * q_max.
    defocus : Angstrom (C10 = -defocus).
    probe_intensity : sum over modes of sum |probe|^2 (== counts per pattern for a pure
        phase object).

    Returns a dict with (at least) ``obj``, ``potential``, ``probe``, ``positions_px``,
    ``intensities`` and every physical parameter used.
    """
    if obj_type not in ("complex", "pure_phase", "potential"):
        raise ValueError(f"unknown obj_type {obj_type!r}")
    gpts = (int(gpts[0]), int(gpts[1]))
    roi = (int(roi[0]), int(roi[1]))
    if roi[0] % 2 or roi[1] % 2:
        raise ValueError("use an even roi (odd sizes make the library Fourier-interpolate targets)")
    num_slices = int(num_slices)
    rng = np.random.default_rng(seed)

    sampling_rc = (float(sampling[0]), float(sampling[1])) if isinstance(sampling, (tuple, list)) else (float(sampling), float(sampling))
    if fractional:
        step_rc = (float(step_px) - 0.3, float(step_px) - 0.4)
    else:
        step_rc = (float(step_px), float(step_px))
    scan_sampling = tuple(s * d for s, d in zip(step_rc, sampling_rc))  # Angstrom
    reciprocal_sampling = tuple(1.0 / (n * d) for n, d in zip(roi, sampling_rc))  # 1/Angstrom
    wavelength = wavelength_angstrom(energy)

    # ---- object shape / scan positions in the library's zero-padding convention ----
    crop = tuple(_crop_shape_1d(s * (g - 1)) for s, g in zip(step_rc, gpts))
    pad0 = tuple(_pad_to_multiple(n, 0) for n in crop)
    shape2d = tuple(n + 2 * p for n, p in zip(crop, pad0))
    pr = np.arange(gpts[0]) * step_rc[0] + pad0[0]
    pc = np.arange(gpts[1]) * step_rc[1] + pad0[1]
    rr, cc = np.meshgrid(pr, pc, indexing="ij")
    positions_px = np.stack([rr.ravel(), cc.ravel()], axis=-1)
    for ax in range(2):
        if (positions_px[:, ax].min() < 0 or positions_px[:, ax].max() > shape2d[ax] - 1) and not allow_edge:
            raise ValueError(
                "scan positions fall outside [0, N-1]; the library would clamp them "
                "(clip_scan_positions) -- choose other gpts/step_px"
            )
        f = np.abs(positions_px[:, ax] - np.rint(positions_px[:, ax]))
        if np.any(np.abs(f - 0.5) < 1e-3) and not allow_half:
            raise ValueError("scan positions too close to a rounding tie")

    # ---- object: unit amplitude, non-negative potential (positivity constraint) ----
    potential = (0.2 + 0.6 * rng.random((num_slices,) + shape2d)) / num_slices
    obj = np.exp(1j * potential)

    # ---- probe ----
    if semiangle_cutoff is None:
        q_max = min(0.5 / sampling_rc[0], 0.5 / sampling_rc[1])
        semiangle_cutoff = 0.5 * q_max * wavelength * 1e3
    probe, weights = _make_probe(
        roi,
        sampling_rc,
        wavelength,
        float(semiangle_cutoff),
        float(defocus),
        int(num_probe_modes),
        probe_mode_weights,
    )
    probe = probe * math.sqrt(probe_intensity)

    thicknesses = np.full((max(num_slices - 1, 0),), float(slice_thickness))
    props = _propagators(roi, sampling_rc, wavelength, thicknesses)

    intens = _forward_numpy(obj, probe, positions_px, props)
    intensities = intens.reshape(gpts + roi)

    return {
        "obj": obj,
        "potential": potential,
        "probe": probe,
        "positions_px": positions_px,
        "intensities": intensities,
        "propagators": props,
        # parameters
        "gpts": gpts,
        "roi": roi,
        "num_slices": num_slices,
        "num_probe_modes": int(num_probe_modes),
        "obj_type": obj_type,
        "step_px": step_rc,
        "fractional": bool(fractional),
        "seed": seed,
        "energy": float(energy),
        "wavelength": wavelength,
        "sampling": sampling_rc,
        "scan_sampling": scan_sampling,
        "reciprocal_sampling": reciprocal_sampling,
        "slice_thickness": float(slice_thickness),
        "slice_thicknesses": thicknesses,
        "semiangle_cutoff": float(semiangle_cutoff),
        "defocus": float(defocus),
        "probe_mode_weights": weights,
        "probe_intensity": float(probe_intensity),
        "obj_shape_crop": crop,
        "obj_padding0": pad0,
        "mean_diffraction_intensity": float(intens.sum(axis=(1, 2)).mean()),
    }


def resimulate(sim: dict, potential=None, probe=None, positions_px=None) -> np.ndarray:
    """Re-run the independent forward model with a replaced potential / probe / positions
    (everything else from ``sim``).  Returns intensities (gy, gx, Ry, Rx)."""
    pot = sim["potential"] if potential is None else np.asarray(potential, dtype=float)
    prb = sim["probe"] if probe is None else np.asarray(probe)
    pos = sim["positions_px"] if positions_px is None else np.asarray(positions_px, dtype=float)
    out = _forward_numpy(np.exp(1j * pot), prb, pos, sim["propagators"])
    return out.reshape(tuple(sim["gpts"]) + tuple(sim["roi"]))


# --------------------------------------------------------------------------------------
# ground-truth embedding for arbitrary obj_padding_px
# --------------------------------------------------------------------------------------
def embed_object(sim: dict, obj_padding_px=(0, 0), perturb=0.0, rng=0):
    """Ground-truth potential / object in the array shape the library uses for the
    requested ``obj_padding_px``.

    The library's patches wrap around the object edges, so the simulated object is
    periodic.  A larger (padded) object reproduces the same patches iff it contains the
    periodic continuation of the zero-padding object; this is exact whenever no padded
    patch wraps or the padded size is a multiple of the zero-padding size (always true
    for the default 8x8 object because the library forces multiples of 8).

    Returns ``(potential_full, obj_full, pad_used, positions_full)``.
    ``perturb`` adds ``perturb * u`` with ``u ~ U(-1, 1)`` (deterministic in ``rng``) to
    the potential (clipped at 0 so that the "potential" positivity constraint stays a
    no-op).
    """
    pot0 = sim["potential"]
    _, ny, nx = pot0.shape
    pad = full_padding(sim, obj_padding_px)
    extra = tuple(p - p0 for p, p0 in zip(pad, sim["obj_padding0"]))
    big = tuple(n + 2 * p for n, p in zip(sim["obj_shape_crop"], pad))
    pos = sim["positions_px"] + np.asarray(extra, dtype=float)[None]
    for ax, (nb, n0, r) in enumerate(zip(big, (ny, nx), sim["roi"])):
        lo = np.rint(pos[:, ax]).min() - r // 2
        hi = np.rint(pos[:, ax]).max() + (r - 1) // 2
        wraps = lo < 0 or hi > nb - 1
        if wraps and nb % n0 != 0:
            raise ValueError(
                f"axis {ax}: padded object size {nb} is not a multiple of {n0} and patches "
                "wrap around -- ground truth cannot be embedded exactly"
            )
    rows = (np.arange(big[0]) - extra[0]) % ny
    cols = (np.arange(big[1]) - extra[1]) % nx
    pot = pot0[:, rows[:, None], cols[None, :]].copy()
    if perturb:
        g = np.random.default_rng(rng)
        pot = np.clip(pot + float(perturb) * g.uniform(-1.0, 1.0, size=pot.shape), 0.0, None)
    return pot, np.exp(1j * pot), pad, pos


# --------------------------------------------------------------------------------------
# 2. build
# --------------------------------------------------------------------------------------
def build(
    sim: dict,
    obj_type=None,
    ground_truth=True,
    perturb=0.0,
    rng=0,
    obj_padding_px=(0, 0),
    val_ratio=0.0,
    val_mode="grid",
    verbose=False,
    learn_descan=True,
    learn_scan_positions=True,
    check=True,
    preprocess_batch_size=None,
    warm_preprocess=False,
):
    """Build a preprocessed ``Ptychography`` instance for the simulated data.

    ground_truth=True  -> the (optionally perturbed) true object is handed to the library
        through ``ObjectPixelated.from_array`` (the only public way to set a pixelated
        object; there is no ``obj`` setter) and the true probe is installed AFTER
        preprocessing through the public setters ``probe_model.probe`` and
        ``probe_model.initial_probe`` (so that ``reconstruct(reset=True)`` restores it too).
    ground_truth=False -> library defaults: uniform object, probe array normalised and
        mode-reweighted by ``set_initial_probe``.
    """
    import torch  # noqa: F401  (quantem needs it; keep import local so module import is light)
    from quantem.core.datastructures.dataset4dstem import Dataset4dstem
    from quantem.diffractive_imaging.dataset_models import PtychographyDatasetRaster
    from quantem.diffractive_imaging.detector_models import DetectorPixelated
    from quantem.diffractive_imaging.object_models import ObjectPixelated
    from quantem.diffractive_imaging.probe_models import ProbePixelated
    from quantem.diffractive_imaging.ptychography import Ptychography

    obj_type = sim["obj_type"] if obj_type is None else obj_type
    num_slices = sim["num_slices"]
    verbose = int(verbose)

    dset4d = Dataset4dstem.from_array(
        array=np.asarray(sim["intensities"], dtype=np.float32),
        name="tiny_ptycho",
        sampling=(*sim["scan_sampling"], *sim["reciprocal_sampling"]),
        units=("A", "A", "A^-1", "A^-1"),
    )
    pdset = PtychographyDatasetRaster.from_dataset4dstem(
        dset4d,
        verbose=verbose,
        learn_descan=learn_descan,
        learn_scan_positions=learn_scan_positions,
    )

    slice_thk = None if num_slices == 1 else float(sim["slice_thickness"])
    pot_full, obj_full, pad_used, pos_full = embed_object(sim, obj_padding_px, perturb, rng)
    if ground_truth:
        init = pot_full if obj_type == "potential" else obj_full
        obj_model = ObjectPixelated.from_array(
            initial_obj=init.astype(np.float32 if obj_type == "potential" else np.complex64),
            slice_thicknesses=slice_thk,
            obj_type=obj_type,
            device="cpu",
            rng=rng,
        )
    else:
        obj_model = ObjectPixelated.from_uniform(
            num_slices=num_slices,
            slice_thicknesses=slice_thk,
            obj_type=obj_type,
            device="cpu",
            rng=rng,
        )

    probe_model = ProbePixelated.from_array(
        probe_array=np.asarray(sim["probe"], dtype=np.complex64),
        probe_params={
            "energy": sim["energy"],
            "semiangle_cutoff": sim["semiangle_cutoff"],
            "defocus": sim["defocus"],
        },
        device="cpu",
        rng=rng,
    )

    ptycho = Ptychography.from_models(
        dset=pdset,
        obj_model=obj_model,
        probe_model=probe_model,
        detector_model=DetectorPixelated(),
        device="cpu",
        verbose=verbose,
        rng=rng,
    )
    if warm_preprocess:
        # The dataset object had an earlier life: it was preprocessed with another descan option (constant fit) and its
        # loss targets were requested, before the user preprocesses it again with the options under test.
        # (Ptychography.preprocess keeps an already preprocessed dataset as it is - by design - so both dataset-level
        # calls are made here, with the arguments Ptychography.preprocess would pass.)
        dkw = dict(force_com_rotation=0, force_com_transpose=False, padded_diffraction_intensities_shape=None,
                   obj_padding_px=tuple(int(p) for p in obj_padding_px), plot_rotation=False, plot_com=False, vectorized=True)
        pdset.preprocess(com_fit_function="constant", **dkw)
        for lt in ("l2_amplitude", "l1_intensity", "l2_amplitude"):
            pdset._set_targets(lt)
        pdset.preprocess(com_fit_function="no_shift", **dkw)
        probe_model.set_initial_probe(pdset.roi_shape, pdset.reciprocal_sampling, pdset.mean_diffraction_intensity, device="cpu")
    ptycho.preprocess(
        obj_padding_px=tuple(int(p) for p in obj_padding_px),
        val_ratio=val_ratio,
        val_mode=val_mode,
        com_fit_function="no_shift",  # com_fit = roi/2 -> zero descan shifts, no fitting
        force_com_rotation=0,  # skip the curl-minimisation rotation search
        force_com_transpose=False,
        plot_rotation=False,
        plot_com=False,
        plot_probe_overlap=False,
        **({"batch_size": int(preprocess_batch_size)} if preprocess_batch_size else {}),
    )

    if check:
        got_shape = tuple(int(x) for x in ptycho.obj_shape_full)
        want_shape = (num_slices,) + tuple(pot_full.shape[-2:])
        if got_shape != want_shape:
            raise RuntimeError(f"object shape mismatch: library {got_shape}, fixture {want_shape}")
        if tuple(int(p) for p in ptycho.obj_padding_px) != tuple(pad_used):
            raise RuntimeError(
                f"padding mismatch: library {ptycho.obj_padding_px}, fixture {pad_used}"
            )
        got_pos = ptycho.dset.scan_positions_px.detach().cpu().numpy()
        if not np.allclose(got_pos, pos_full, atol=1e-4):
            raise RuntimeError(
                f"scan position mismatch (max {np.abs(got_pos - pos_full).max():.3g} px)"
            )

    if ground_truth:
        prb = np.asarray(sim["probe"], dtype=np.complex64)
        ptycho.probe_model.probe = prb
        ptycho.probe_model.initial_probe = prb.copy()

    # NB: nothing is attached to the library object (it is AutoSerialize-d / deep-copied by
    # save()/clone()); use embed_object(sim, obj_padding_px, perturb, rng) to get the arrays
    # that were installed.
    return ptycho


def freeze_gc() -> None:
    """``Ptychography.reconstruct`` ends with two full ``gc.collect()`` calls, which cost
    ~0.2 s each once torch/matplotlib/quantem are imported (measured: 0.45 s per
    ``reconstruct`` call vs ~4 ms per batch of real work).  Moving everything allocated
    so far into the permanent generation makes those collections ~free.  Call once after
    the first ``build`` (i.e. after all imports)."""
    import gc

    gc.collect()
    gc.freeze()


# --------------------------------------------------------------------------------------
# 3. forward_loss
# --------------------------------------------------------------------------------------
def forward_loss(ptycho, loss_type="l2_amplitude", batch_size=None) -> float:
    """Library forward pipeline over all patterns (sequential, unshuffled batches, no RNG
    use, no optimizer step), averaged over batches exactly like ``reconstruct`` does."""
    import torch

    ptycho._check_preprocessed()
    ptycho.dset._set_targets(loss_type)
    ptycho.compute_propagator_arrays()
    n = int(ptycho.dset.num_gpts)
    bs = n if batch_size is None else int(batch_size)
    total = 0.0
    nb = 0
    with torch.no_grad():
        for start in range(0, n, bs):
            batch_indices = np.arange(start, min(start + bs, n))
            patch_indices, _pos, pos_frac, descan = ptycho.dset.forward(
                batch_indices, ptycho.obj_padding_px
            )
            shifted_probes = ptycho.probe_model.forward(pos_frac)
            obj_patches = ptycho.obj_model.forward(patch_indices)
            _prop, overlap = ptycho.forward_operator(obj_patches, shifted_probes, descan)
            pred = ptycho.detector_model.forward(overlap)
            loss, _targets = ptycho.error_estimate(pred, batch_indices, loss_type=loss_type)
            total += float(loss.item())
            nb += 1
    return total / nb


def expected_loss(sim: dict, loss_type="l2_amplitude", batch_size=None, pred=None) -> float:
    """Independent float64 evaluation of the library's loss definition for predicted
    intensities ``pred`` (default: the simulated ones, i.e. the ground-truth value, which
    is tiny-but-nonzero for amplitude losses because of the 1e-9 epsilon and is the
    Poisson minimum for "poisson")."""
    tgt = np.asarray(sim["intensities"], dtype=float).reshape((-1,) + tuple(sim["roi"]))
    prd = tgt if pred is None else np.asarray(pred, dtype=float).reshape(tgt.shape)
    n = tgt.shape[0]
    bs = n if batch_size is None else int(batch_size)
    mean_i = tgt.sum(axis=(1, 2)).mean()
    vals = []
    for start in range(0, n, bs):
        t = tgt[start : start + bs]
        p = prd[start : start + bs]
        if "amplitude" in loss_type:
            t = np.sqrt(t)
            p = np.sqrt(p + 1e-9)
        if "l1" in loss_type:
            e = np.abs(p - t).sum() / (t.shape[0] / n)
        elif "l2" in loss_type:
            e = (np.abs(p - t) ** 2).sum() / (t.shape[0] / n)
        elif loss_type == "poisson":
            e = (p - t * np.log(p + 1e-6)).sum()
        else:
            raise ValueError(loss_type)
        vals.append(e / mean_i)
    return float(np.mean(vals))


# --------------------------------------------------------------------------------------
# 4. self test
# --------------------------------------------------------------------------------------
def _selftest():
    import copy
    import itertools
    import warnings

    import torch

    torch.set_num_threads(1)
    warnings.simplefilter("ignore")
    opt = DEFAULT_OPTIMIZER_PARAMS

    # -- timing of the default configuration, before / after freeze_gc()
    t0 = time.perf_counter()
    sim = simulate()
    t_sim = time.perf_counter() - t0
    t0 = time.perf_counter()
    p = build(sim, perturb=0.05)
    t_first = time.perf_counter() - t0
    t0 = time.perf_counter()
    p.reconstruct(num_iters=2, batch_size=4, optimizer_params=copy.deepcopy(opt))
    t_rec_cold = time.perf_counter() - t0
    freeze_gc()
    t0 = time.perf_counter()
    p = build(sim, perturb=0.05)
    t_build = time.perf_counter() - t0
    t0 = time.perf_counter()
    p.reconstruct(num_iters=2, batch_size=4, optimizer_params=copy.deepcopy(opt))
    t_rec = time.perf_counter() - t0
    print(
        f"simulate {1e3 * t_sim:.1f} ms | first build (incl. quantem/torch import) "
        f"{t_first:.2f} s | reconstruct(2 it, 4 batches/it) without freeze_gc "
        f"{1e3 * t_rec_cold:.0f} ms"
    )
    print(
        f"after freeze_gc(): build {1e3 * t_build:.1f} ms, reconstruct(2 it) "
        f"{1e3 * t_rec:.1f} ms -> {1e3 * t_rec / 2:.1f} ms/iter"
    )
    print(
        f"public history: iter_losses={p.iter_losses}, num_iters={p.num_iters}, "
        f"iter_lrs={ {k: v.tolist() for k, v in p.iter_lrs.items()} }"
    )
    print()

    hdr = (
        f"{'obj_type':10s} S M roi    frac pad    | "
        + " ".join(f"{lt:>12s}" for lt in LOSS_TYPES)
        + " | l2a perturbed | iter_losses (2 it, bs=4)   | ms/iter build_ms"
    )
    print("ground-truth loss per loss type (poisson: library minus independent reference)")
    print(hdr)
    worst = 0.0
    worst_poisson = 0.0
    for obj_type, ns, nm, roi, frac, pad in itertools.product(
        ("complex", "pure_phase", "potential"),
        (1, 2),
        (1, 2),
        ((8, 8), (8, 6)),
        (False, True),
        ((0, 0), (4, 8)),
    ):
        sim = simulate(
            roi=roi, num_slices=ns, num_probe_modes=nm, obj_type=obj_type, fractional=frac
        )
        t0 = time.perf_counter()
        p = build(sim, obj_padding_px=pad)
        t_build = time.perf_counter() - t0
        n_pat = p.dset.num_gpts
        cells = []
        for lt in LOSS_TYPES:
            got = forward_loss(p, lt)
            ref = expected_loss(sim, lt)
            if lt == "poisson":
                worst_poisson = max(worst_poisson, abs(got - ref) / abs(ref))
                cells.append(f"{got - ref:12.3e}")
            else:
                worst = max(worst, got / n_pat)
                cells.append(f"{got:12.3e}")
        pp = build(sim, obj_padding_px=pad, perturb=0.05)
        l_pert = forward_loss(pp, "l2_amplitude")
        t0 = time.perf_counter()
        pp.reconstruct(num_iters=2, batch_size=4, optimizer_params=copy.deepcopy(opt))
        t_it = (time.perf_counter() - t0) / 2
        il = pp.iter_losses
        print(
            f"{obj_type:10s} {ns} {nm} {str(roi):6s} {int(frac):4d} {str(pad):7s}| "
            + " ".join(cells)
            + f" | {l_pert:13.3e} | {il[0]:.4e} -> {il[1]:.4e} | {1e3 * t_it:7.1f} {1e3 * t_build:8.1f}"
        )
    print(f"worst ground-truth (l1/l2 loss) / num_patterns: {worst:.3e}")
    print(f"worst relative poisson deviation from independent reference: {worst_poisson:.3e}")


if __name__ == "__main__":
    _selftest()
