"""Verdict bookkeeping shared by all checks: known-findings matching, replay files,
VIOLATION / KNOWN-FINDING lines, evidence files, exit codes.

Exit codes: 0 property held (possibly with KNOWN-FINDING lines), 1 VIOLATION,
2 machinery failure.
"""
from __future__ import annotations

import hashlib
import json
import os
import sys
import time
import traceback

VERIF = os.path.dirname(os.path.dirname(os.path.dirname(os.path.abspath(__file__))))
# VERIF_OUT redirects evidence and replay files (used only when trying seeded changes in a scratch
# worktree, so that the committed evidence of the unchanged tree is not overwritten)
_OUT = os.environ.get("VERIF_OUT") or VERIF
EVIDENCE_DIR = os.path.join(_OUT, "evidence")
REPLAY_DIR = os.path.join(_OUT, "replays")
FINDINGS_FILE = os.path.join(VERIF, "findings", "known_findings.json")


def _jsonable(o):
    try:
        import numpy as np
        if isinstance(o, np.ndarray):
            return o.tolist()
        if isinstance(o, (np.integer,)):
            return int(o)
        if isinstance(o, (np.floating,)):
            return float(o)
        if isinstance(o, (np.bool_,)):
            return bool(o)
    except Exception:
        pass
    if isinstance(o, (set, frozenset)):
        return sorted(map(str, o))
    if isinstance(o, complex):
        return [o.real, o.imag]
    if isinstance(o, bytes):
        return o.hex()
    return repr(o)


class Reporter:
    def __init__(self, pid: str, tier: str, seed: int, level: str = "model_checking"):
        self.pid = pid
        self.tier = tier
        self.seed = seed
        self.level = level
        self.t0 = time.time()
        self.violations = 0          # unlisted violations
        self.known_hits = {}         # key -> count
        self.printed_known = set()
        self.coverage = {"states": 0, "transitions": 0, "traces_validated_against_impl": 0,
                         "samples": [], "evaluations": 0, "distinct_nontrivial": 0}
        self.assumptions = []
        self.notes = {}
        self._distinct = set()
        try:
            with open(FINDINGS_FILE) as f:
                self.findings = json.load(f)["findings"]
        except FileNotFoundError:
            self.findings = []
        self.known = {f["key"]: f for f in self.findings
                      if f["property"] == pid and f.get("status") == "known"}

    # -- statistics ---------------------------------------------------------
    def add_tlc(self, r, label: str):
        self.coverage["states"] += int(r.distinct)
        self.coverage["transitions"] += int(r.generated)
        self.notes.setdefault("tlc_runs", []).append(
            {"label": label, "generated": r.generated, "distinct": r.distinct,
             "depth": r.depth, "wall_s": round(r.wall_s, 2),
             "violated": r.violated, "coverage": r.coverage or None})

    def add_traces(self, n: int):
        self.coverage["traces_validated_against_impl"] += int(n)

    def add_eval(self, n: int = 1):
        self.coverage["evaluations"] += int(n)

    def add_distinct(self, key):
        """Count a distinct non-trivial case (measured, by hash of its description)."""
        h = hashlib.sha1(json.dumps(key, sort_keys=True, default=_jsonable).encode()).hexdigest()
        self._distinct.add(h)

    def sample(self, obj, limit: int = 6):
        if len(self.coverage["samples"]) < limit:
            self.coverage["samples"].append(json.loads(json.dumps(obj, default=_jsonable)))

    def note(self, k, v):
        self.notes[k] = v

    def assume(self, *texts):
        for t in texts:
            if t not in self.assumptions:
                self.assumptions.append(t)

    # -- verdicts -----------------------------------------------------------
    def mismatch(self, key: str, what: str, replay: dict):
        """Report a conformance mismatch / property violation observed on the real code.

        `key` identifies the specific failing input class or call site; it is matched
        against findings/known_findings.json (status "known")."""
        if key in self.known:
            self.known_hits[key] = self.known_hits.get(key, 0) + 1
            if key not in self.printed_known:
                self.printed_known.add(key)
                print(f"KNOWN-FINDING: property={self.pid} {key}: {self.known[key]['what']}",
                      flush=True)
            return False
        self.violations += 1
        os.makedirs(REPLAY_DIR, exist_ok=True)
        body = {"property": self.pid, "key": key, "what": what, "seed": self.seed,
                "tier": self.tier, "replay": replay}
        txt = json.dumps(body, default=_jsonable, indent=1, sort_keys=True)
        h = hashlib.sha1(txt.encode()).hexdigest()[:12]
        path = os.path.join(REPLAY_DIR, f"{self.pid}-{h}.json")
        with open(path, "w") as f:
            f.write(txt)
        if self.violations <= 20:
            print(f"VIOLATION property={self.pid} replay={path}", flush=True)
            print(f"  key={key} :: {what}"[:600], flush=True)
        return True

    # -- evidence -----------------------------------------------------------
    def write_evidence(self, rule: str, exhaustive: bool | None = None):
        os.makedirs(EVIDENCE_DIR, exist_ok=True)
        cov = dict(self.coverage)
        cov["distinct_nontrivial"] = len(self._distinct)
        cov["rule"] = rule
        if exhaustive is not None:
            cov["exhaustive"] = bool(exhaustive)
        cov["known_findings_hit"] = self.known_hits
        cov.update({k: v for k, v in self.notes.items()})
        if not cov["samples"]:
            cov["samples"] = ["(no sample recorded)"]
        ev = {"property_id": self.pid, "tier": self.tier, "seed": int(self.seed),
              "level": self.level, "coverage": cov, "assumptions": self.assumptions,
              "wall_s": round(time.time() - self.t0, 2), "violations": int(self.violations)}
        path = os.path.join(EVIDENCE_DIR, f"{self.pid}.json")
        tmp = path + ".tmp"
        with open(tmp, "w") as f:
            json.dump(ev, f, indent=1, default=_jsonable)
        os.replace(tmp, path)
        return path

    def exit_code(self):
        return 1 if self.violations else 0


def run_check(pid: str, fn, tier: str, seed: int):
    """Run fn(rep) with total-verdict discipline."""
    from .tlc import MachineryError
    rep = Reporter(pid, tier, seed)
    try:
        rule, exhaustive = fn(rep)
    except MachineryError as e:
        print(f"MACHINERY-FAILURE property={pid}: {e}", file=sys.stderr, flush=True)
        sys.exit(2)
    except Exception:
        traceback.print_exc()
        print(f"MACHINERY-FAILURE property={pid}: unexpected exception in harness",
              file=sys.stderr, flush=True)
        sys.exit(2)
    rep.write_evidence(rule, exhaustive)
    n_known = sum(rep.known_hits.values())
    print(f"[{pid}] tier={tier} seed={seed} states={rep.coverage['states']} "
          f"transitions={rep.coverage['transitions']} "
          f"traces={rep.coverage['traces_validated_against_impl']} "
          f"evals={rep.coverage['evaluations']} distinct={len(rep._distinct)} "
          f"violations={rep.violations} known_hits={n_known} "
          f"wall={time.time() - rep.t0:.1f}s", flush=True)
    sys.exit(rep.exit_code())
