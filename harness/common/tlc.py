"""Thin runner around TLC: runs a module/config, parses statistics, coverage and
behaviours exported with PrintT(<<"CASE", ToJson(...)>>).

Every call uses a private -metadir under a temporary directory that is removed
afterwards, an outer timeout, and -noGenerateSpecTE.
"""
from __future__ import annotations

import json
import os
import re
import shutil
import subprocess
import tempfile
import time
from dataclasses import dataclass, field

VERIF = os.path.dirname(os.path.dirname(os.path.dirname(os.path.abspath(__file__))))
SPECS = os.path.join(VERIF, "specs")
TLA_CP = "/opt/veriftools/tla/tla2tools.jar:/opt/veriftools/tla/CommunityModules-deps.jar"


class MachineryError(RuntimeError):
    """Raised when the verification machinery itself fails (exit code 2)."""


@dataclass
class TlcResult:
    ok: bool                      # TLC finished without reporting any error
    stdout: str
    generated: int = 0
    distinct: int = 0
    depth: int = 0
    violated: str | None = None   # name of violated invariant / property, if any
    postcondition_false: bool = False
    cases: list = field(default_factory=list)      # decoded JSON payloads of CASE lines
    tuples: dict = field(default_factory=dict)     # tag -> list of raw strings for other PrintT tags
    coverage: dict = field(default_factory=dict)   # action name -> (count taken)
    wall_s: float = 0.0
    cmd: str = ""


_STATS = re.compile(r"(\d+) states generated, (\d+) distinct states found")
_DEPTH = re.compile(r"The depth of the complete state graph search is (\d+)")
_VIOL = re.compile(r"Error: (?:Invariant|Action property|Temporal properties?) ?(\S*) (?:is|was|were) violated")
# a wrong model variant can also make the EVALUATION of the property fail (index outside a domain) before a worker
# reports the plain violation; with several workers which message comes first is a race.  Only negative controls read it.
_EVALFAIL = re.compile(r"Error: Evaluating (?:invariant|action property) (\S+) failed")
_COV = re.compile(r"^<(\w+) line \d+, col \d+ to line \d+, col \d+ of module (\w+)>: (\d+):(\d+)", re.M)


def _unescape_tla_string(s: str) -> str:
    # TLC prints strings with \" and \\ escapes
    out = []
    i = 0
    while i < len(s):
        c = s[i]
        if c == "\\" and i + 1 < len(s):
            n = s[i + 1]
            if n == "n":
                out.append("\n")
            elif n == "t":
                out.append("\t")
            else:
                out.append(n)
            i += 2
        else:
            out.append(c)
            i += 1
    return "".join(out)


def parse_cases(stdout: str, tag: str = "CASE") -> list:
    """Extract JSON payloads from lines of the form <<"TAG", "....json....">>."""
    res = []
    prefix = '<<"%s", "' % tag
    for line in stdout.splitlines():
        if line.startswith(prefix) and line.endswith('">>'):
            body = line[len(prefix):-3]
            res.append(json.loads(_unescape_tla_string(body)))
    return res


def run_tlc(module: str, cfg: str, *, spec_dir: str, workers: int | str = "auto",
            timeout: int = 600, env: dict | None = None, simulate: str | None = None,
            depth: int | None = None, seed: int | None = None, coverage: bool = False,
            deadlock: bool = False, extra: list | None = None, tag: str = "CASE",
            dfs: bool = False, java_opts: list | None = None) -> TlcResult:
    tmp = tempfile.mkdtemp(prefix="vtlc_")
    try:
        cmd = ["java", "-XX:+UseParallelGC", "-Xmx8g"]
        if dfs:
            cmd.append("-Dtlc2.tool.queue.IStateQueue=StateDeque")
        cmd += (java_opts or [])
        cmd += ["-cp", TLA_CP, "tlc2.TLC", "-metadir", os.path.join(tmp, "meta"),
                "-noGenerateSpecTE", "-workers", str(workers), "-config", cfg]
        if not deadlock:
            cmd.append("-deadlock")   # -deadlock DISABLES deadlock checking
        if simulate is not None:
            cmd += ["-simulate", simulate]
        if depth is not None:
            cmd += ["-depth", str(depth)]
        if seed is not None:
            cmd += ["-seed", str(seed)]
        if coverage:
            cmd += ["-coverage", "1"]
        cmd += (extra or [])
        cmd.append(module)
        e = dict(os.environ)
        e.pop("JAVA_TOOL_OPTIONS", None)
        if env:
            e.update({k: str(v) for k, v in env.items()})
        t0 = time.time()
        try:
            p = subprocess.run(cmd, cwd=spec_dir, env=e, capture_output=True, text=True,
                               timeout=timeout)
            # a JVM that could not start or was killed (memory pressure from many concurrent runs) prints neither a
            # verdict nor statistics: run it again (at most twice) before anything reads its output
            for _retry in range(2):
                o = p.stdout + p.stderr
                if simulate is not None or "states generated" in o or "Error:" in o or "Semantic error" in o \
                        or "Parse Error" in o or "Could not parse" in o:
                    break
                time.sleep(5)
                shutil.rmtree(os.path.join(tmp, "meta"), ignore_errors=True)
                p = subprocess.run(cmd, cwd=spec_dir, env=e, capture_output=True, text=True, timeout=timeout)
        except subprocess.TimeoutExpired as ex:
            if simulate is not None:
                # simulation runs until killed when num is large; treat as normal end
                out = (ex.stdout or b"")
                out = out.decode() if isinstance(out, bytes) else out
                r = TlcResult(ok=True, stdout=out, wall_s=time.time() - t0, cmd=" ".join(cmd))
                r.cases = parse_cases(out, tag)
                return r
            raise MachineryError(f"TLC timed out after {timeout}s: {' '.join(cmd)}")
        out = p.stdout + "\n" + p.stderr
        r = TlcResult(ok=(p.returncode == 0), stdout=out, wall_s=time.time() - t0,
                      cmd=" ".join(cmd))
        m = None
        for m in _STATS.finditer(out):
            pass
        if m:
            r.generated, r.distinct = int(m.group(1)), int(m.group(2))
        m = _DEPTH.search(out)
        if m:
            r.depth = int(m.group(1))
        m = _VIOL.search(out)
        if m:
            r.violated = m.group(1) or "temporal"
        if "Postcondition" in out and "is false" in out:
            r.postcondition_false = True
        r.cases = parse_cases(out, tag)
        for m in _COV.finditer(out):
            name = m.group(1)
            r.coverage[name] = r.coverage.get(name, 0) + int(m.group(4))
        if p.returncode != 0 and r.violated is None and not r.postcondition_false:
            # parse / semantic / evaluation error
            if ("Parsing or semantic analysis failed" in out or "Error:" in out
                    or "Exception" in out):
                r.ok = False
        return r
    finally:
        shutil.rmtree(tmp, ignore_errors=True)


def expect_clean(r: TlcResult, what: str) -> TlcResult:
    """The design model must be accepted by TLC; anything else is machinery failure
    (a model bug), never a verdict on the code."""
    if not r.ok or r.violated or r.postcondition_false:
        raise MachineryError(f"{what}: TLC did not accept the model "
                             f"(violated={r.violated}); tail:\n{r.stdout[-3000:]}")
    if r.generated == 0 and "-simulate" not in r.cmd:
        raise MachineryError(f"{what}: could not parse TLC statistics:\n{r.stdout[-2000:]}")
    return r


def expect_violation(r: TlcResult, what: str, name: str | None = None) -> TlcResult:
    """Negative control: the deliberately wrong model variant must be rejected."""
    if r.violated is None:
        m = _EVALFAIL.search(r.stdout)
        if m and (name is None or name in m.group(1)):
            r.violated = m.group(1) + " (evaluation failed)"
            return r
        raise MachineryError(f"negative control {what}: TLC accepted a wrong model; tail:\n"
                             f"{r.stdout[-2000:]}")
    if name and name not in r.violated:
        raise MachineryError(f"negative control {what}: expected violation of {name}, "
                             f"got {r.violated}")
    return r


def sany(module_path: str) -> bool:
    p = subprocess.run(["java", "-cp", TLA_CP, "tla2sany.SANY", os.path.basename(module_path)],
                       cwd=os.path.dirname(module_path), capture_output=True, text=True)
    return p.returncode == 0 and "Semantic errors" not in p.stdout and "Fatal" not in p.stdout \
        and "Parse Error" not in p.stdout and "Could not" not in p.stdout


def cfg_variant(cfg_path: str, out_dir: str, name: str, consts: dict | None = None,
                add_lines: list | None = None, drop_prefixes: tuple = ()) -> str:
    """Copy a .cfg with some `NAME = value` constants replaced / lines appended.
    Returns the absolute path of the new file (written into out_dir)."""
    txt = open(cfg_path).read().splitlines()
    out = []
    for line in txt:
        s = line.strip()
        if any(s.startswith(p) for p in drop_prefixes):
            continue
        for k, v in (consts or {}).items():
            m = re.match(r"^(\s*(?:CONSTANTS?\s+)?)" + re.escape(k) + r"\s*=\s*\S+\s*$", line)
            if m:
                line = f"{m.group(1)}{k} = {v}"
        out.append(line)
    out += (add_lines or [])
    path = os.path.join(out_dir, name)
    with open(path, "w") as f:
        f.write("\n".join(out) + "\n")
    return path


_PROG = re.compile(r'<<\s*"PROGRESS",\s*<<([^>]*)>>\s*>>', re.S)


def parse_progress(stdout: str) -> list | None:
    m = None
    for m in _PROG.finditer(stdout):
        pass
    if not m:
        return None
    body = m.group(1).strip()
    if not body:
        return []
    return [int(x) for x in re.findall(r"-?\d+", body)]


def validate_traces(module: str, cfg: str, spec_dir: str, payload, *, timeout=1800,
                    workers=1, dfs=False, env_name="TRACE_FILE") -> tuple:
    """Run a *Trace spec over a batch.  Returns (TlcResult, progress vector)."""
    tmp = tempfile.mkdtemp(prefix="vtrace_")
    try:
        tf = os.path.join(tmp, "traces.json")
        with open(tf, "w") as f:
            json.dump(payload, f)
        r = run_tlc(module, cfg, spec_dir=spec_dir, workers=workers, timeout=timeout,
                    env={env_name: tf}, dfs=dfs)
        prog = parse_progress(r.stdout)
        if prog is None:
            raise MachineryError(f"trace validation produced no PROGRESS line:\n{r.stdout[-3000:]}")
        return r, prog
    finally:
        shutil.rmtree(tmp, ignore_errors=True)
