"""Process-pool helper: fork-based map in chunks (torch/numpy imported in the parent)."""
from __future__ import annotations

import multiprocessing as mp
import os


def pmap(fn, items, procs: int | None = None, chunk: int = 64):
    items = list(items)
    procs = procs or min(16, os.cpu_count() or 1)
    if procs <= 1 or len(items) < 2 * chunk:
        return [fn(x) for x in items]
    ctx = mp.get_context("fork")
    with ctx.Pool(procs) as pool:
        return pool.map(fn, items, chunksize=chunk)
