"""C16 — forward-model operator identities.  FwdOps.tla / FwdOpsTrace.tla.

Part A (exact): TLC checks Adjoint and ScatterConserves on integer index algebra with repeated
and wrapped patch indices (negative control: overwriting scatter); exported cases are replayed
into sum_patches (exact equality) and the library's own patch-index tables are validated
against the specification's table by TLC.
Part B (group action): TLC enumerates all walks of Translate/Propagate steps with their abstract
end state; the replayer executes them with the library's Fourier translation and Fresnel
propagators and requires: equal abstract state => equal wave; integer shift = circular roll;
zero state = input; total intensity invariant.
Laws on the full pipeline: pure-phase objects conserve the probe intensity in every pattern;
the Fourier projection is idempotent and yields the measured amplitudes.
"""
from __future__ import annotations

import contextlib
import io
import json
import os
import shutil
import tempfile
import warnings

import numpy as np

from harness.common import tlc
from harness.common.par import pmap
from harness.common.tlc import MachineryError

SPEC = os.path.join(tlc.SPECS, "fwdops")
SHAPES_A = [(4, 5, 3, 2, 4), (5, 4, 2, 3, 3), (4, 4, 4, 4, 3), (6, 5, 3, 3, 5), (3, 3, 2, 2, 6)]


def part_a_case(case):
    import torch
    from quantem.diffractive_imaging.ptycho_utils import sum_patches
    out = []
    ny, nx, ry, rx, npos = case["ny"], case["nx"], case["ry"], case["rx"], case["npos"]
    idx = torch.tensor(case["idx"], dtype=torch.long).reshape(npos, ry, rx)
    pat = np.array(case["pat"], dtype=float).reshape(npos, ry, rx)
    want = np.array(case["scatter"], dtype=float).reshape(ny, nx)
    tag = f"obj={ny}x{nx} roi={ry}x{rx} npos={npos}"
    for dt in (torch.float32, torch.float64, torch.complex64, torch.complex128):
        p = torch.tensor(pat).to(dt)
        w = want.astype(complex) if dt.is_complex else want
        if dt.is_complex:
            p = p * (1 + 2j)
            w = w * (1 + 2j)
        got = sum_patches(p, idx, (ny, nx)).numpy()
        if got.shape != (ny, nx) or not np.array_equal(got, w.astype(got.dtype)):
            out.append(("C16:sum_patches:scatter", f"{tag} {dt}: scatter differs from the exact model"))
            break
    # gather through the same table and the adjoint identity on these integers
    obj = torch.tensor(case["obj"], dtype=torch.float64)
    g = obj[idx.reshape(-1)].reshape(npos, ry, rx).numpy()
    if not np.array_equal(g, np.array(case["gather"], dtype=float).reshape(npos, ry, rx)):
        out.append(("C16:gather", f"{tag}: gather differs from the exact model"))
    lhs = float((g * pat).sum())
    rhs = float((obj.numpy().reshape(ny, nx) * sum_patches(torch.tensor(pat), idx, (ny, nx)).numpy()).sum())
    if lhs != rhs:
        out.append(("C16:adjoint", f"{tag}: <Gather(o),p>={lhs} != <o,Scatter(p)>={rhs}"))
    return out


def fixtures(quick):
    cfgs = [dict(gpts=(3, 3), roi=(8, 8), num_slices=1, num_probe_modes=1),
            dict(gpts=(3, 4), roi=(8, 6), num_slices=2, num_probe_modes=2, fractional=True),
            dict(gpts=(4, 3), roi=(6, 8), num_slices=3, num_probe_modes=1, fractional=True),
            dict(gpts=(3, 3), roi=(8, 8), num_slices=2, num_probe_modes=3)]
    return cfgs[:3] if quick else cfgs


def pipeline_laws(arg):
    """Pure-phase intensity conservation, Fourier projection, library index tables, adjointness
    with the library's own gather.  Returns (problems, tables)."""
    cfg, idx = arg
    warnings.filterwarnings("ignore")
    import torch
    from harness.common import tiny_ptycho as tp
    from quantem.diffractive_imaging.ptycho_utils import sum_patches
    out, tables = [], []
    tag = f"gpts={cfg['gpts']} roi={cfg['roi']} slices={cfg['num_slices']} modes={cfg['num_probe_modes']}"
    try:
        with contextlib.redirect_stdout(io.StringIO()):
            sim = tp.simulate(obj_type="pure_phase", seed=3 + idx, **cfg)
            for pad in ((0, 0), (4, 8)):
                p = tp.build(sim, obj_type="pure_phase", perturb=0.3, rng=2, obj_padding_px=pad)
                n = int(p.dset.num_gpts)
                bi = np.arange(n)
                with torch.no_grad():
                    patch_indices, _pos, pos_frac, descan = p.dset.forward(bi, p.obj_padding_px)
                    shifted = p.probe_model.forward(pos_frac)
                    patches = p.obj_model.forward(patch_indices)
                    _pp, overlap = p.forward_operator(patches, shifted, descan)
                    pred = p.detector_model.forward(overlap)
                    probe_int = float((p.probe_model.probe.abs() ** 2).sum())
                    tot = pred.sum(dim=(-2, -1)).numpy()
                    if np.abs(tot - probe_int).max() > 2e-4 * probe_int:
                        out.append(("C16:pure-phase:intensity", f"{tag} pad={pad}: summed predicted intensity "
                                    f"{tot.min():.6g}..{tot.max():.6g} != probe intensity {probe_int:.6g}"))
                    # library index table -> validated against the spec's table by TLC
                    obj_shape = tuple(int(x) for x in p.obj_shape_full[-2:])
                    pos = np.round(p.dset.scan_positions_px.detach().cpu().numpy()).astype(int)
                    tables.append({"ny": obj_shape[0], "nx": obj_shape[1], "ry": int(cfg["roi"][0]), "rx": int(cfg["roi"][1]),
                                   "pos": pos.tolist(), "idx": patch_indices.reshape(n, -1).tolist()})
                    # adjointness with the library's gather (obj_model.forward) and scatter (sum_patches)
                    rng = np.random.default_rng(idx)
                    P = torch.tensor(rng.integers(-3, 4, size=tuple(patches.shape[1:])) + 1j * rng.integers(-3, 4, size=tuple(patches.shape[1:])),
                                     dtype=patches.dtype)
                    o0 = patches[0]                     # gather of slice 0 of the (constrained) object
                    lhs = torch.sum(o0.conj() * P)
                    sc = sum_patches(P, patch_indices, obj_shape)
                    # the gathered values come from the object array: recover it cell by cell through the table
                    obj_flat = torch.zeros(obj_shape[0] * obj_shape[1], dtype=patches.dtype)
                    obj_flat[patch_indices.reshape(-1)] = o0.reshape(-1)
                    rhs = torch.sum(obj_flat.conj() * sc.reshape(-1))
                    if abs(complex(lhs - rhs)) > 1e-3 * (1 + abs(complex(lhs))):
                        out.append(("C16:adjoint:library-tables", f"{tag} pad={pad}: <G o,P>={complex(lhs):.5g} vs <o,S P>={complex(rhs):.5g}"))
                    # Fourier projection: idempotent, yields the measured amplitudes (zeros included)
                    meas = p.dset.amplitudes[bi] if hasattr(p.dset, "amplitudes") else None
                    A = torch.sqrt(torch.clamp(pred, min=0)) * torch.tensor(rng.uniform(0.5, 1.5, size=tuple(pred.shape)), dtype=pred.dtype)
                    A[:, 0, 1] = 0.0
                    A[:, 2, 3] = 0.0
                    proj = p.fourier_projection(A, overlap)
                    amp = p.estimate_amplitudes(proj, corner_centered=False)
                    if float((amp - A).abs().max()) > 2e-4 * float(A.max()):
                        out.append(("C16:fourier-projection:amplitudes", f"{tag} pad={pad}: projected amplitudes differ from "
                                    f"the measured ones by {float((amp - A).abs().max()):.3g}"))
                    proj2 = p.fourier_projection(A, proj)
                    if float((proj2 - proj).abs().max()) > 2e-4 * float(proj.abs().max()):
                        out.append(("C16:fourier-projection:idempotent", f"{tag} pad={pad}: not idempotent "
                                    f"({float((proj2 - proj).abs().max()):.3g})"))
                    # the projection operator on waves of other shapes (odd / non-square ROI): detector-centred measured
                    # amplitudes, this object's number of probe modes
                    if pad == (0, 0):
                        nm = int(cfg["num_probe_modes"])
                        for shp in ((7, 7), (11, 13), (12, 9), (5, 8), (9, 9), (6, 10)):
                            ov = torch.tensor(rng.normal(size=(nm, 3) + shp) + 1j * rng.normal(size=(nm, 3) + shp), dtype=overlap.dtype)
                            Am = torch.tensor(rng.uniform(0.5, 1.5, size=(3,) + shp), dtype=pred.dtype)
                            Am[:, 0, 1] = 0.0
                            Am[:, shp[0] // 2, shp[1] // 2] = 0.0
                            pj = p.fourier_projection(Am, ov)
                            am = p.estimate_amplitudes(pj, corner_centered=False)
                            par = "odd" if (shp[0] % 2 or shp[1] % 2) else "even"
                            if float((am - Am).abs().max()) > 2e-4 * float(Am.max()):
                                ms = float((torch.sort(am.reshape(3, -1), dim=1)[0] - torch.sort(Am.reshape(3, -1), dim=1)[0]).abs().max())
                                out.append((f"C16:fourier-projection:amplitudes:{par}-roi", f"{tag} wave {shp[0]}x{shp[1]} modes={nm}: projected amplitudes "
                                            f"differ from the measured ones by {float((am - Am).abs().max()):.3g}"
                                            + (" (equal as a multiset: a permutation of the detector pixels)" if ms < 1e-4 else "")))
                                break
                            pj2 = p.fourier_projection(Am, pj)
                            if float((pj2 - pj).abs().max()) > 2e-4 * float(pj.abs().max()):
                                out.append((f"C16:fourier-projection:idempotent:{par}-roi", f"{tag} wave {shp[0]}x{shp[1]} modes={nm}: not idempotent"))
                                break
                        # waves whose Fourier transform has EXACT zeros where the measured amplitude is not zero (an empty, a
                        # uniform, a single-plane-wave and a checkerboard exit wave): the projection still yields the measured
                        # amplitudes (the phase of a zero coefficient is free, its amplitude is not)
                        for shp in ((6, 6), (5, 8)):
                            rr, cc = np.meshgrid(np.arange(shp[0]), np.arange(shp[1]), indexing="ij")
                            waves = {"empty": np.zeros(shp, dtype=complex), "uniform": np.full(shp, 0.5 - 0.25j),
                                     "plane-wave": np.exp(2j * np.pi * (rr / shp[0])) if True else None,
                                     "checkerboard": ((-1.0) ** (rr + cc)).astype(complex) if shp[0] % 2 == 0 and shp[1] % 2 == 0 else np.full(shp, 2.0 + 0j)}
                            for wname, wv in waves.items():
                                ov = torch.tensor(np.broadcast_to(wv, (nm, 2) + shp).copy(), dtype=overlap.dtype)
                                Am = torch.tensor(rng.uniform(0.5, 1.5, size=(2,) + shp), dtype=pred.dtype)
                                pj = p.fourier_projection(Am, ov)
                                am = p.estimate_amplitudes(pj, corner_centered=False)
                                if not bool(torch.isfinite(am).all()) or float((am - Am).abs().max()) > 2e-4 * float(Am.max()):
                                    kind = "single-state" if nm == 1 else "mixed-state"
                                    out.append((f"C16:fourier-projection:zero-coefficients:{kind}",
                                                f"{tag} {wname} wave {shp[0]}x{shp[1]} modes={nm}: projected amplitudes differ from the measured ones by "
                                                f"{float((am - Am).abs().max()):.3g} where the wave's Fourier coefficient is exactly zero"))
                                    break
    except Exception as ex:  # noqa: BLE001
        out.append(("C16:pipeline:raised", f"{tag}: {type(ex).__name__}: {str(ex)[:200]}"))
    return out, tables


def walks_for_shape(arg):
    """Execute all walks on one ROI shape; group by abstract end state."""
    shape, walks, idx = arg
    warnings.filterwarnings("ignore")
    import torch
    from harness.common import tiny_ptycho as tp
    from quantem.diffractive_imaging.ptycho_utils import fourier_shift_expand
    out = []
    R, C = shape
    rng = np.random.default_rng(11 + idx)
    psi0 = torch.tensor(rng.normal(size=(2, R, C)) + 1j * rng.normal(size=(2, R, C)), dtype=torch.complex128)
    tag = f"roi={R}x{C}"
    groups = {}
    try:
        from quantem.diffractive_imaging.probe_models import ProbePixelated
        with contextlib.redirect_stdout(io.StringIO()):
            pm = ProbePixelated.from_array(probe_array=np.ones((1, R, C), dtype=np.complex64),
                                           probe_params={"energy": 80e3, "semiangle_cutoff": 20.0, "defocus": 0.0},
                                           device="cpu", rng=0)
        dz = 7.0
        sampling = (0.5, 0.4)
        kern = {k: pm._compute_propagator_arrays(sampling, 2, np.array([k * dz]))[0].to(torch.complex128)
                for k in (1, -1, 2)}
        # tilted kernels ("Q" steps): the model's Tilt = (1, -2) quarter pixels of sideways drift per unit distance,
        # i.e. dz * tan(theta) / sampling = Tilt / 4; all three come from ONE stack of unequal thicknesses
        tilt_q = (1, -2)
        pm.probe_tilt = tuple(float(np.arctan(t * sp / (4.0 * dz)) * 1e3) for t, sp in zip(tilt_q, sampling))
        order = [(2, 1, -1), (-1, 2, 1), (1, -1, 2)][idx % 3]
        stack = pm._compute_propagator_arrays(sampling, 4, np.array([k * dz for k in order])).to(torch.complex128)
        kern_q = {k: stack[i] for i, k in enumerate(order)}
        for k in order:
            alone = pm._compute_propagator_arrays(sampling, 2, np.array([k * dz]))[0].to(torch.complex128)
            if float((alone - kern_q[k]).abs().max()) > 1e-5:
                out.append(("C16:kernel-depends-on-stack-position",
                            f"{tag}: tilted propagator for thickness {k}*dz differs by {float((alone - kern_q[k]).abs().max()):.3g} "
                            f"between a stack {order} and a single-slice call"))
        pm.probe_tilt = (0.0, 0.0)

        def propagate(arr, kernel):
            # PtychographyBase._propagate_array: Fourier convolution with the library's kernel
            from quantem.diffractive_imaging.ptychography_base import PtychographyBase
            return PtychographyBase._propagate_array(None, arr, kernel)
        e0 = float((psi0.abs() ** 2).sum())
        for w in walks:
            psi = psi0.clone()
            for st in w["walk"]:
                if st[0] == "T":
                    if st[1][0] % 4 == 0 and st[1][1] % 4 == 0 and (len(w["walk"]) + idx) % 2:
                        # an integer translation written with an integer dtype (as a user would: torch.tensor([[1, -2]]))
                        v = torch.tensor([[st[1][0] // 4, st[1][1] // 4]], dtype=[torch.int64, torch.int32][idx % 2])
                    else:
                        v = torch.tensor([[st[1][0] / 4.0, st[1][1] / 4.0]], dtype=[torch.float64, torch.float32][(idx // 2) % 2])
                    psi = fourier_shift_expand(psi, v, expand_dim=False)
                    if psi.shape != psi0.shape:
                        psi = psi.reshape(psi0.shape)
                elif st[0] == "Q":
                    psi = propagate(psi, kern_q[st[1]])
                else:
                    psi = propagate(psi, kern[st[1]])
            e = float((psi.abs() ** 2).sum())
            if abs(e - e0) > 1e-5 * e0:
                out.append(("C16:energy", f"{tag}: total intensity {e} != {e0} after walk {w['walk']}"))
            key = (tuple(w["shift"]), w["dist"])
            groups.setdefault(key, []).append((w["walk"], psi))
        scale = float(psi0.abs().max())
        for (shift, dist), members in groups.items():
            ref = members[0][1]
            for wk, psi in members[1:]:
                if float((psi - ref).abs().max()) > 2e-4 * scale:
                    out.append(("C16:function-of-state", f"{tag}: walks {members[0][0]} and {wk} reach the same abstract "
                                f"state {shift},{dist} but differ by {float((psi - ref).abs().max()):.3g}"))
                    break
            if dist == 0 and shift[0] % 4 == 0 and shift[1] % 4 == 0:
                want = torch.roll(psi0, shifts=(shift[0] // 4, shift[1] // 4), dims=(-2, -1))
                if float((ref - want).abs().max()) > 2e-4 * scale:
                    out.append(("C16:integer-shift-roll", f"{tag}: state {shift} is not the circular roll "
                                f"(max dev {float((ref - want).abs().max()):.3g}; walk {members[0][0]})"))
    except Exception as ex:  # noqa: BLE001
        out.append(("C16:walks:raised", f"{tag}: {type(ex).__name__}: {str(ex)[:200]}"))
    return out, len(groups)


def check(rep, tier, seed):
    quick = tier == "quick"
    rep.assume("Fresnel kernels are obtained from probe_model._compute_propagator_arrays and applied with "
               "_propagate_array (the operators themselves; no public wrapper exists)",
               "numeric identities compared with 2e-4 relative tolerance (float32 phase ramps)",
               "the predicted far field has no exact zeros where the measured amplitude is non-zero")
    tmp = tempfile.mkdtemp(prefix="c16_")
    try:
        casesA = []
        for (ny, nx, ry, rx, npos) in (SHAPES_A[:3] if quick else SHAPES_A):
            consts = {"NY": ny, "NX": nx, "RY": ry, "RX": rx, "NPOS": npos}
            c = tlc.cfg_variant(os.path.join(SPEC, "FwdA.cfg"), tmp, "a.cfg", consts)
            r = tlc.run_tlc("FwdOps", c, spec_dir=SPEC, workers=8, timeout=900)
            rep.add_tlc(r, f"FwdOps part A obj={ny}x{nx} roi={ry}x{rx}: Adjoint, ScatterConserves")
            tlc.expect_clean(r, "FwdA")
            g = tlc.cfg_variant(os.path.join(SPEC, "FwdAGEN.cfg"), tmp, "ag.cfg", consts)
            rg = tlc.run_tlc("FwdOps", g, spec_dir=SPEC, workers=1, timeout=900)
            tlc.expect_clean(rg, "FwdAGEN")
            casesA += rg.cases
        rn = tlc.run_tlc("FwdOps", "FwdNEG.cfg", spec_dir=SPEC, workers=4, timeout=600)
        tlc.expect_violation(rn, "FwdNEG (overwriting scatter)", "Adjoint")
        b = tlc.cfg_variant(os.path.join(SPEC, "FwdB.cfg"), tmp, "b.cfg", {"MaxLen": 3 if quick else 4})
        rb = tlc.run_tlc("FwdOps", b, spec_dir=SPEC, workers=1, timeout=1800)
        rep.add_tlc(rb, "FwdOps part B: all walks, abstract state = sum of steps")
        tlc.expect_clean(rb, "FwdB")
        walks = rb.cases
        rep.note("negative_controls", ["FwdNEG: scatter that overwrites instead of accumulating"])
    finally:
        shutil.rmtree(tmp, ignore_errors=True)
    if not casesA or not walks:
        raise MachineryError("no cases exported")
    rep.note("cases", {"index_algebra": len(casesA), "walks": len(walks)})
    rep.sample({"index_case": {k: casesA[0][k] for k in ("ny", "nx", "ry", "rx", "pos", "idx")}})
    rep.sample({"walk": walks[len(walks) // 2]})
    for c in casesA:
        rep.add_traces(1)
        rep.add_eval(1)
        rep.add_distinct(["A", c["idx"], c["pat"]])
        for key, msg in part_a_case(c):
            rep.mismatch(key, msg, {"index_case": c, "message": msg})
    shapes = [(8, 8), (7, 6), (6, 9)] if not quick else [(8, 8), (7, 6)]
    res = pmap(walks_for_shape, [(s, walks, i) for i, s in enumerate(shapes)], procs=len(shapes), chunk=1)
    for s, (probs, ngroups) in zip(shapes, res):
        rep.add_traces(len(walks))
        rep.add_eval(len(walks))
        rep.notes.setdefault("abstract_states", {})[f"{s[0]}x{s[1]}"] = ngroups
        seen = set()
        for key, msg in probs:
            if key not in seen:
                seen.add(key)
                rep.mismatch(key, msg, {"roi": s, "message": msg})
    for w in walks:
        rep.add_distinct(["B", w["walk"]])
    # pipeline laws + library index tables validated by TLC
    fx = fixtures(quick)
    res = pmap(pipeline_laws, [(c, i) for i, c in enumerate(fx)], procs=len(fx), chunk=1)
    tables = []
    for c, (probs, tb) in zip(fx, res):
        rep.add_eval(2)
        rep.add_distinct(["pipeline", c])
        tables += tb
        for key, msg in probs:
            rep.mismatch(key, msg, {"fixture": c, "message": msg})
    if tables:
        r, prog = tlc.validate_traces("FwdOpsTrace", "FwdOpsTrace.cfg", SPEC, tables, timeout=900)
        rep.add_tlc(r, "FwdOpsTrace: library patch-index tables = specification tables")
        for t, ok in zip(tables, prog):
            rep.add_traces(1)
            if ok != 1:
                rep.mismatch("C16:patch-index-table", f"library patch indices for obj={t['ny']}x{t['nx']} roi={t['ry']}x{t['rx']} "
                             "differ from the specification's table", {"table": t})
    rule = ("part A: parameter choices of the index family per (object, ROI) shape exported by TLC with exact "
            "gather/scatter; part B: all walks of length 3/4 over 9 steps exported by TLC, executed on 2-3 ROI "
            "shapes and grouped by abstract end state; pipeline laws on fixtures (1-3 slices, 1-3 modes, "
            "non-square ROI, fractional positions, object padding); distinct by case / walk")
    return rule, False


def replay(path):
    body = json.load(open(path))
    rp = body["replay"]
    if "index_case" in rp:
        out = part_a_case(rp["index_case"])
    else:
        print(rp.get("message"))
        out = [rp.get("message")]
    for o in out:
        print(o)
    return 1 if out else 0
