"""Module-level AutoSerialize classes used by the serializer checks (they must be importable
by name when the library re-creates objects at load time)."""
from quantem.core.io.serialize import AutoSerialize


class VObj(AutoSerialize):
    def __init__(self, **kw):
        self.__dict__.update(kw)


class Root(VObj):
    pass


class Inner(VObj):
    pass


class Unpicklable:
    """An attribute value whose serialisation fails (natural failure for C08)."""

    def __reduce__(self):
        raise RuntimeError("cannot serialise this value")
