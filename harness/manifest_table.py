"""Claimed properties: level text, trusted base, technique, DESIGN section."""
CLAIMED = {
    "C19": {
        "text": "ConfigStore.tla specifies the store as a last-writer-wins tree with canonical keys, "
                "accumulated defaults, config-file overlay and with-block undo frames; TLC checks "
                "LastWriterWins, SiblingsKept, RefreshRestores, DefaultsRespectUser and WithRestores "
                "on the bounded instance (ConfigMC) and rejects three wrong variants. TLC then "
                "generates operation scripts (exhaustive to depth 2/3, simulated 30-step walks) which "
                "are executed on the real config functions; every recorded execution (arguments, "
                "raised flag, full observed configuration and get() results after each call) is "
                "validated against the specification by TLC (ConfigTrace.tla). Bounded model "
                "checking plus trace validation is the right level: the property is about every "
                "history of a small sequential state machine.",
        "note": "Trusted: TLC, the JSON trace codec, the driver's mapping from script actions to "
                "public calls (private config/defaults passed through the public parameters). Key "
                "kinds are type-consistent across writers; CUDA/MPS unavailable so device requests "
                "are exercised for rejection only.",
        "technique": "TLA+ spec + TLC model checking; TLC-generated scripts executed on the code; "
                     "recorded traces validated against the spec with TLC",
        "design_ref": "DESIGN.md section 4 (C19)",
    },
}
