"""Claimed properties: level text, trusted base, technique, DESIGN section."""
CLAIMED = {
    "C19": {
        "text": "ConfigStore.tla specifies the store as a last-writer-wins tree with canonical keys, "
                "accumulated defaults, config-file overlay and with-block undo frames; TLC checks "
                "LastWriterWins, SiblingsKept, RefreshRestores, DefaultsRespectUser and WithRestores "
                "on the bounded instance (ConfigMC) and rejects three wrong variants. TLC then "
                "generates operation scripts (exhaustive to depth 2/3, simulated 30-step walks) which "
                "are executed on the real config functions; every recorded execution (arguments, "
                "raised flag, full observed configuration and get() results after each call) is "
                "validated against the specification by TLC (ConfigTrace.tla). Bounded model "
                "checking plus trace validation is the right level: the property is about every "
                "history of a small sequential state machine.",
        "note": "Trusted: TLC, the JSON trace codec, the driver's mapping from script actions to "
                "public calls (private config/defaults passed through the public parameters). Key "
                "kinds are type-consistent across writers; CUDA/MPS unavailable so device requests "
                "are exercised for rejection only.",
        "technique": "TLA+ spec + TLC model checking; TLC-generated scripts executed on the code; "
                     "recorded traces validated against the spec with TLC",
        "design_ref": "DESIGN.md section 4 (C19)",
    },
    "C17": {
        "text": "UnwrapUF.tla models reliability-sorted unwrapping as a union-find with offsets over "
                "integer phases (units of 2*pi/K) where Union(e) is enabled for ANY remaining edge; "
                "TLC checks TreeConsistent (inductive), Final (original field up to one constant per "
                "mask component), Untouched and Acyclic for every Itoh field, every mask and every "
                "merge order on small bounded and periodic grids, and rejects a sign-flipped variant. "
                "Every initial state TLC enumerates (and simulated constructive fields up to 8x8, "
                "K=16) is replayed into unwrap_phase_2d_torch and the three clauses of the property "
                "are compared with the model's field and mask components.",
        "note": "Trusted: TLC, the quantisation argument (phases are multiples of 2*pi/K so float "
                "rounding cannot cross a decision boundary), the harness projection. The "
                "implementation is exercised with its own reliability order only; all other merge "
                "orders are covered on the model.",
        "technique": "TLA+ union-find model checked by TLC over all merge orders; TLC-exported "
                     "initial states replayed into the implementation",
        "design_ref": "DESIGN.md section 4 (C17)",
    },
    "C09": {
        "text": "Batcher.tla specifies per-epoch scheduling (any partition into train/validation, any "
                "order, full batches but the last, reported length = yielded, same-seed restart must "
                "replay the recorded batches, batch-mean = full-batch when bs divides the set) and TLC "
                "checks Partition, ExactlyOnce, EpochComplete, LenMatches, Deterministic and BatchMean on "
                "the bounded model, rejecting three wrong variants. Executions of the real SimpleBatcher "
                "(n<=12 x bs<=14|None x 9 ratios x grid/random x shuffle, two epochs + same-seed restart) "
                "and of Ptychography.reconstruct (hook events per batch; reset and twin runs on tiny "
                "synthetic datasets) are validated against the spec by TLC (BatcherTrace.tla). Where the "
                "model's BatchMean premise holds, the epoch-mean loss and gradients of the real "
                "reconstruction are compared with the full-batch ones; same-seed loss histories must be "
                "identical.",
        "note": "Trusted: TLC, the hook (one event per yielded batch, emitted inside the loop before the "
                "batch is used), the tiny synthetic fixture. Numeric comparisons: float32, rtol 2e-4 "
                "(loss) and 2e-3 of max|grad|; loss histories compared for equality on one CPU thread.",
        "technique": "TLA+ spec + TLC model checking; traces recorded from the code (hook + public "
                     "iterator) validated against the spec with TLC; model-guided numeric replay",
        "design_ref": "DESIGN.md section 4 (C09)",
    },
    "C01": {
        "text": "Serializer.tla transcribes the save dispatch (_serialize_value/_serialize_container) and "
                "the load marker dispatch (_recursive_load/_deserialize_container) over an abstract "
                "store (attrs / path flags / arrays / groups per group) and an abstract value grammar "
                "(21 kinds). TLC checks RoundTrip (Load(Save(g)) = Norm(g), same class and attribute "
                "set), FixedPoint and NeverRaises for every object graph of the bounded universe "
                "(all leaf kinds, containers of width<=2, depth 2 over dispatch classes, nested objects) "
                "and rejects five legacy variants (one per defect of the pinned tree). Every graph is "
                "exported, instantiated with concrete payloads (15 NumPy dtypes incl. complex, "
                "datetime, strings, structured, big-endian; 0-d/empty/non-contiguous arrays; 8 tensor "
                "dtypes), saved/loaded/re-saved/re-loaded under zip and dir stores, compression "
                "None/0..9, str/Path targets, modes w/o, and compared with the model's expected value."
                " A second module, SerializerHistory.tla (file system as the only state; Save/Load of two objects on one path with str or pathlib.Path spelling and both modes; LoadReturnsLastSaved, WriteOnce; negative control = a cache keyed by the spelling), is exhaustively enumerated to 4 calls (10 000 histories) and replayed in both stores.",
        "note": "Trusted: TLC, the harness instantiation/comparison (harness/serial_common.py), zarr/"
                "Blosc/torch/dill byte fidelity. Bounded graph universe; rng/loggers only as "
                "attributes; reserved names and '/' excluded as the property states.",
        "technique": "TLA+ transcription of the dispatch chains model-checked by TLC; every model "
                     "state exported and replayed into the implementation (S->C)",
        "design_ref": "DESIGN.md section 4 (C01)",
    },
    "C14": {
        "text": "Same Serializer.tla model with skip sets: TLC checks SkippedAbsent, OthersUntouched, "
                "Persisted, SaveEqLoad and LoadSkipBoth for every (graph with names reused at three "
                "attribute-nesting levels) x (subset of a 4-name alphabet incl. an absent name) x (9 "
                "type lists). Exported cases are replayed: save(skip=...), load plain / with the same "
                "skip / with further names, and load-time skipping of the unskipped file, each compared "
                "with the model's expected object; both stores.",
        "note": "Trusted as C01. Skip types are module-level classes; skip names do not collide with "
                "class-level attributes; nested objects reached through attributes.",
        "technique": "TLA+ model checked by TLC; exported cases replayed into save/load with skip lists",
        "design_ref": "DESIGN.md section 4 (C14)",
    },
    "C08": {
        "category": "model_checking",
        "text": "SaveFaults.tla models save() step-wise (exists-check, remove, mkdir/writes or "
                "staging/zip assembly) with a Fail action between any two steps; TLC checks "
                "NoPartialLoadable, WriteOnce and OnlyTarget over every pre-existing target kind, store, "
                "mode, fault phase/position and two consecutive saves, and rejects the pinned-tree "
                "variant without clean-up. Every scenario is replayed against the real save() with an "
                "exception injected at the matching external boundary (zarr LocalStore.set, "
                "ZipFile.write, torch.save, unserialisable attribute; thorough: every concrete call "
                "index) and the real file system is inspected: target absent/unreadable or a complete "
                "earlier object, write-once target byte-identical, siblings and temp dir untouched.",
        "note": "Trusted: TLC, the injection wrappers, tree hashing. Faults are exceptions at external "
                "boundaries (not process crashes). zip and dir stores never share a target path.",
        "technique": "TLA+ fault model checked by TLC; fault scenarios enumerated by TLC replayed with "
                     "fault injection into the implementation",
        "design_ref": "DESIGN.md section 4 (C08)",
    },
    "C10": {
        "text": "PARTIAL, by design. Admissible.tla has two parts. Object part: the hard-constraint pipeline (amplitude clamp / unit "
                "amplitude, baseline, positivity, field-of-view mask, slice tying) as a step-wise state machine over amplitude BOUNDS "
                "in exact units of 1/20, for every constraint configuration (object type x apply_fov_mask x identical_slices x "
                "positivity x baseline x mask present), every raw amplitude class {0, 1/2, 1, 2, 5} (potential: {-2, -1/2, 0, 1/2, 2}) "
                "per entry and every mask value {0, 1/2, 1} per slice and pixel; steps are deliberately loose where the property is silent "
                "(fractional mask values, baseline offset, amplitude after tying). TLC checks AdmissibleObject (complex <= 1, pure "
                "phase = 1 on exact entries, potential >= 0 under positivity) in every final state and rejects a pipeline without the "
                "clamp. Probe part: Gram-Schmidt + norm restoration + intensity sort over the Gaussian integers in exact fraction-free "
                "arithmetic (one Subtract step per earlier mode, Push, Restore, Sort); TLC checks OrthoSoFar after every step, NoneLost, "
                "SortedDescending, SameMultiset for every ordered set of family vectors (incl. pairs with correlation 0.989) x scales, and "
                "rejects a projection conjugated the wrong way. Every exported case is replayed: ObjectPixelated.apply_hard_constraints "
                "and .obj on raw parameters of the model's amplitude classes (phases varied, two layouts) must stay inside the bounds, "
                "hit exact entries, tie slices, be amplitude-idempotent where the model says so and leave the raw tensor alone; "
                "ProbeConstraints._probe_orthogonalization_constraint and ProbePixelated.probe must return mutually orthogonal modes "
                "whose intensities are the model's sorted integer list; set_initial_probe / _apply_weights must give the total "
                "diffraction intensity and the per-mode fractions the model computes as exact rationals; the tomography object model's "
                "positivity clamp is checked against the same bounds rule; probe mode sets are handed over in four amplitude units and "
                "three mean-intensity scales. NOT decided: arbitrary float tensors (only the amplitude "
                "lattice), smoothing filters, probe centring, 5 modes.",
        "note": "Trusted: TLC integer arithmetic; float32 comparison tolerances 2e-6 (object) and 1e-4 relative (probe); the harness's "
                "translation of an amplitude class into a complex number with an arbitrary phase. 3- and 4-mode sets are drawn by "
                "seeded TLC simulation, 1-2 modes are exhaustive.",
        "technique": "TLA+ bounds / exact Gram-Schmidt state machines checked by TLC; exported cases replayed into the object and "
                     "probe models",
        "design_ref": "DESIGN.md section 5 (C10)",
    },
    "C11": {
        "text": "VectorHeap.tla models the Vector as a heap (array objects, metadata dict objects, vectors "
                "holding references) kept in canonical form; TLC checks CellsWellFormed, Schema, "
                "NoSharing (copies / independently created vectors share no array and no metadata dict), "
                "FlattenRoundTrip and SliceAddresses (1, 2 and 3 fixed dimensions) over all operation "
                "histories of the bounded model and rejects three wrong variants (shared metadata "
                "default, 2-D-only slicing, add_fields mutating shared arrays). TLC generates the "
                "operation scripts (exhaustive depth 3: ~24k; simulated 10-step walks); each is executed "
                "on real Vectors and after every call the full heap projection (identity graph + "
                "contents) and read-backs (cell/fancy get, flatten, field flatten) are recorded; the "
                "traces are validated against the spec by TLC, which resolves share-vs-copy.",
        "note": "Trusted: TLC, the driver's projection (identity by id() of live objects) and its mapping "
                "of script actions to public calls. Scripts stay inside the claim: full index tuples "
                "for assignment, fresh arrays, no repeated fancy indices.",
        "technique": "TLA+ heap model checked by TLC; TLC-generated scripts executed on the code; "
                     "recorded traces validated against the spec with TLC",
        "design_ref": "DESIGN.md section 4 (C11)",
    },
    "C03": {
        "text": "DatasetOps.tla models a dataset as per-axis bags of base-array positions (pad = empty bag, "
                "bin = concatenated bags, index = selected bags in NumPy's result-axis order, integer "
                "indices = pins) with exact rational origin/sampling and calibration provenance. TLC "
                "checks Coherent/ClassMatchesDim, CalWithData, SourceUntouched, OthersUntouched and "
                "RaisesUnchanged exhaustively to 2-3 actions over a curated alphabet (~270 operation "
                "instances per state: copy, setters incl. wrong length, pad, crop, bin, resample, index "
                "with ints/negative ints/slices incl. negative steps/lists/Ellipsis/short tuples, in "
                "place or not) from 1-D..5-D initial datasets of all five classes, and rejects the "
                "pinned-tree variant (calibration kept in natural order). Behaviours (exhaustive to 1-2 "
                "actions, simulated to 8-12) are replayed on real datasets with 7 dtypes: class, shape, "
                "origin, sampling, units and the data rebuilt from the bags are compared after every "
                "action, every other live object is re-hashed, in-place and copying variants are "
                "compared."
                " Axis-keyed arguments are mappings in the model and are listed ascending / descending / rotated in the replay; the index semantics includes NumPy's syntactic separation by an Ellipsis that expands to no axis.",
        "note": "Trusted: TLC, the replayer's bag-to-array reconstruction (einsum with count matrices), "
                "NumPy indexing itself. Resample re-bases the data model (values decided by C06).",
        "technique": "TLA+ model checked by TLC; TLC behaviours with post-states replayed into the "
                     "implementation (S->C)",
        "design_ref": "DESIGN.md section 4 (C03)",
    },
    "C06": {
        "text": "Same DatasetOps.tla model in c06 mode: TLC checks BinConserves (every covered sample in "
                "exactly one block, trailing remainder dropped, block-centre preservation in exact "
                "rationals), PadCropIdentity and ResampleMeta (centre and extent preserved) over every "
                "axis subset x factors 1..4 x sum/mean, pad-to-shape+crop, and resampling to lengths "
                "{1,2,3,4,5,7,8} from 8 shapes (1-D..4-D, odd/even). Every single-operation behaviour "
                "is replayed: bin/pad/crop data compared with the exact bag reconstruction (integer "
                "inputs, 7 dtypes), and the Fourier-resample laws (identity, linearity, mean, in-place = "
                "copy, up-then-down = id without Nyquist content, calibration restored) are checked on "
                "real arrays for the model-enumerated (shape, out_shape, axes).",
        "note": "Trusted: TLC, NumPy FFT accuracy (tolerance 1e-9*|x|max*N), the replayer. Resample data "
                "are checked through laws, not through an exact model.",
        "technique": "TLA+ model checked by TLC (exact rational/bag laws); exported operation instances "
                     "replayed into the implementation",
        "design_ref": "DESIGN.md section 4 (C06)",
    },
    "C05": {
        "text": "PtychoLifecycle.tla specifies the reconstruction state's discrete skeleton (iteration count, "
                "per-key lr history with zero back-fill, optimizer identity/step counters, scheduler epochs, "
                "constraints, symbolic update trajectory) and transcribes reconstruct()'s handling of "
                "reset / optimizer_params / scheduler_params; an interruption (save+reload zip/dir with raw "
                "data, or clone) is a stuttering step. TLC checks FamilyAgree, ReloadRestores and "
                "LrHistoryComplete over all programs of 3 calls (1-2 full-batch iterations each; adam / "
                "adamw / sgd, exp / linear / plateau schedulers, removing an optimizer, changing "
                "constraints, reset) with up to two interruptions at any split point, and rejects three "
                "wrong Restore variants. A seeded sample of the 9.7k behaviours is replayed with twin "
                "runs on the tiny synthetic dataset (complex / pure-phase / potential objects, 1-2 "
                "slices, 1-2 probe modes): after every event the discrete projection is compared with "
                "the model and losses, lr history, object and probe of the interrupted process with the "
                "uninterrupted twin and with the saved state.",
        "note": "Trusted: TLC, the synthetic fixture, torch determinism on one CPU thread; numeric "
                "tolerance rtol 2e-4 (float32). Full-batch updates only; CPU only.",
        "technique": "TLA+ state machine checked by TLC; exported behaviours replayed as twin runs on the "
                     "implementation (S->C)",
        "design_ref": "DESIGN.md section 4 (C05)",
    },
    "C18": {
        "text": "ComOrigin.tla computes, in exact integer/rational arithmetic, the centre of mass (row first) "
                "of every pattern of parametrised positive-integer 4-D datasets, processes the patterns in "
                "consecutive batches of every size and checks ScheduleIndependent / InsideDetector / "
                "RollConserves (negative control: batch-total normalisation). The exported datasets with "
                "their exact centres, integer-plane origins and rolled patterns are fed to the origin model "
                "(every batch size 1..N, None, >N), the dataset model (vectorised and looped), get_com_2d "
                "(numpy, torch), fit_origin_background / fit_origin (plane, constant) and "
                "shift_origin_to; results are compared with the model's values."
                " The model also carries the index of the fitted origin each pattern of a batch is shifted by (ShiftScheduleIndependent; negative control: short last batch) and TableStable (measured origins are write-once); the replay shifts with every batch size and runs the workflow as a history on one object.",
        "note": "Trusted: TLC arithmetic, float32 tolerance 2e-5 px on small-integer inputs. Detector masks "
                "are not reachable through public preprocessing and are not exercised.",
        "technique": "TLA+ exact-arithmetic oracle with batch-schedule state machine checked by TLC; "
                     "exported cases replayed into four implementations",
        "design_ref": "DESIGN.md section 4 (C18)",
    },
    "C12": {
        "text": "PARTIAL, by design. AberrationForms.tla carries a coefficient set through the representations the "
                "library uses, one action per library function (user dictionary in canonical or alias spelling with "
                "'defocus' = -C10 -> Standardize -> polar -> ToCart -> Cartesian -> AddDelta -> ToPolar; Merge = the three "
                "in one call), and defines the MEANING of every state as the aberration function evaluated exactly on the "
                "integer lattice (-2..2)^2 of scattering-angle vectors, where every term of orders 1..5 (all 14 (n,m) "
                "terms, 25 polar symbols / 25 Cartesian labels) is a polynomial over the Gaussian integers. TLC checks "
                "MeaningLaw (representation changes keep the meaning, a delta adds its meaning), SurfaceAgree and GradAgree "
                "(the polar series and the polar gradient recombined into x/y as the library writes them equal the "
                "polynomial and its exact derivative), Euler (homogeneity of the exact derivative) and Order1Linear (the "
                "first-order gradient is the symmetric matrix the shift fit recovers), and rejects three wrong variants "
                "(phi + phi_nm, 'defocus' = +C10, azimuthal derivative with the wrong sign). Every behaviour is exported "
                "with the exact lattice values and replayed through standardize_aberration_coefs, "
                "validate_aberration_coefficients, the probe_params setter (ProbePixelated, ProbeParametric), "
                "polar_to_cartesian_aberrations, cartesian_to_polar_aberrations, merge_aberration_coefficients, and - action Reassign / "
                "ReassignLaw - a second assignment of one term (canonical or alias spelling) on the live probe models; after every "
                "step aberration_surface, aberration_surface_cartesian_gradients, aberration_surface_cartesian_basis, "
                "parse_cartesian_aberration_label, aberration_surface_grad and DirectPtychography._return_lateral_shifts are "
                "evaluated on the lattice and compared with TLC's integers; first-order states inside the identifiable "
                "domain go through predicted shifts -> fit_aberrations_from_shifts for seven rotation angles. NOT decided: "
                "the identity at arbitrary real angles / azimuths (only lattice points and coefficient directions with "
                "rational cosine and sine), the symbolic form, fits from noisy or cross-correlation-measured shifts.",
        "note": "Trusted: TLC integer arithmetic; float64 library results compared with exact integers to 1e-9 relative, "
                "float32 paths (standardize_aberration_coefs, fftfreq grids) to 1e-4; the harness's translation of a model "
                "direction <<d1, d2>> into an angle atan2(d2, d1)/m (every branch 2 pi j/m is used). Polynomial identities "
                "of degree <= 6 that hold on the 25 lattice points for every single term and every pair of terms.",
        "technique": "TLA+ representation state machine with exact Gaussian-integer meaning checked by TLC; behaviours "
                     "replayed into the library's conversion, evaluation and fit functions",
        "design_ref": "DESIGN.md section 5 (C12)",
    },
    "C13": {
        "text": "Registration.tla computes exact integer circular cross-correlations on a family of small "
                "images and checks Recovers (estimate = applied shift for EVERY shift of the periodic "
                "cell, principal cell, +-N/2 identified), ZeroOnIdentical, SwapNegates and Aligns on odd, "
                "even and non-square shapes; a sign-flipped estimator is rejected. Every exported "
                "(reference, moving, shift) triple is run through the NumPy and torch estimators for "
                "upsampling factors 1..64, real/Fourier inputs and outputs (aligned image = reference), "
                "max_shift, identical and swapped images: integer shifts must come back exactly. Band-"
                "limited sub-pixel cases (rational shifts) on larger shapes must come back within "
                "1/upsample_factor.",
        "note": "Trusted: TLC arithmetic; the harness's synthesis of band-limited images; float64 "
                "tolerance 1e-6 px (torch 1e-5). Unique-peak images only; torch tolerance 0.5 px for "
                "upsample <= 2 (its half-pixel stage).",
        "technique": "TLA+ exact-arithmetic oracle checked by TLC over the whole periodic cell; exported "
                     "cases replayed into both estimators",
        "design_ref": "DESIGN.md section 4 (C13)",
    },
    "C16": {
        "text": "FwdOps.tla, part A: exact integer index algebra of patch extraction with wrap-around and "
                "repeated indices; TLC checks Adjoint (<Gather o, p> = <o, Scatter p>) and ScatterConserves "
                "and rejects an overwriting scatter; exported cases are replayed into sum_patches (bit-exact, "
                "real and complex dtypes) and the library's own patch-index tables (with and without object "
                "padding, non-square ROI) are validated against the specification's table by TLC "
                "(FwdOpsTrace). Part B: an abelian group-action state machine (Translate in quarter pixels, "
                "Propagate in slice units); TLC enumerates every walk of length 3/4 with its abstract end "
                "state; the replayer executes the walks with fourier_shift_expand and the library's Fresnel "
                "kernels and requires equal abstract state => equal wave (additivity, commutation, "
                "propagate-and-back), integer shift = circular roll, and invariant total intensity. Pipeline "
                "laws on fixtures with 1-3 slices, 1-3 modes, fractional positions and padding: pure-phase "
                "objects conserve the probe intensity in every pattern; fourier_projection is idempotent "
                "and yields the measured amplitudes (zeros included)."
                " Part B also has tilted propagation steps taken from ONE stack of unequal slice thicknesses (a slice's kernel depends on its own thickness only), the Fourier projection is exercised on odd / non-square waves for 1-3 modes, and the index lemma CentringInverse (fftshift is its own inverse exactly for even lengths) is checked by TLC.",
        "note": "Trusted: TLC, the synthetic fixture; numeric tolerance 2e-4 relative. Fresnel kernels come "
                "from probe_model._compute_propagator_arrays (no public wrapper).",
        "technique": "TLA+ exact index algebra and group-action model checked by TLC; exported cases/walks "
                     "replayed; library index tables validated against the spec with TLC",
        "design_ref": "DESIGN.md section 4 (C16)",
    },
    "C04": {
        "text": "DirectPtychoStream.tla models the streaming of bright-field pixels in consecutive batches with "
                "single-pass kernels (ssb, prlx, icom) and two-pass kernels (obf, mf: power accumulated over "
                "ALL pixels before the second pass) keeping results symbolically; TLC checks "
                "FunctionOfInputs, EachPixelOnce and Recombine for every sub-mask, kernel and batch size and "
                "rejects a per-batch normaliser; it also computes the exact rolled mean-subtracted integer "
                "images of the parallax oracle. The replayer runs reconstruct() for every kernel and alias, "
                "upsampling 1..3, aberration / rotation / filter variants and EVERY batch size 1..num_bf "
                "(and larger), a repeated call, linearity on two integer stacks, recombination of "
                "complementary sub-masks weighted by aperture weights, zero-aberration parallax = sum of "
                "mean-subtracted images / W, and defocused parallax = TLC's rolled images."
                " HyperState.tla models the hyper-parameter layers (construction / optimized / per-call override, explicit zeros, rotation) with OverrideWins, RestFromBelow, RotationLayers, CallsArePure and a negative control that drops falsy values; every (construction, override) pair is replayed against fresh objects built with the effective values.",
        "note": "Trusted: TLC; aperture weights W from the library's evaluate_probe; float32 tolerances 2e-5 "
                "(batch invariance) / 2e-4 (linearity, recombination) relative. Nine BF pixels, scan shapes up "
                "to 9x8; exact parallax oracle at rotation angle 0.",
        "technique": "TLA+ streaming model checked by TLC + exact integer oracle; replayed into the "
                     "implementation over every batch schedule",
        "design_ref": "DESIGN.md section 4 (C04)",
    },
    "C15": {
        "text": "DriftGeom.tla computes, in doubled integers, the exact canvas coordinate of every pixel for scan "
                "directions 0/90/180/270 degrees (centre + u*fast + v*slow), the canvas shape with the round-"
                "half-even rule, and the points of the straight scan line described by K = 1..4 knots; TLC "
                "checks KnotIndependent, CentreToCentre and Injective over 7 shapes (square, non-square, odd/"
                "even) x 4 angles x 5 pad fractions and rejects the pinned-tree single-knot extent. Every case "
                "is replayed into DriftCorrection.preprocess for 1..4 knots, 2..4 images and three KDE widths: "
                "canvas shape, coordinates (1e-9 px), unit weight per pixel; 7 oblique angles per case are "
                "checked relationally (knot-count independence, rotation formula), and identical stacks must "
                "leave the knots unchanged under align_translation (upsample 1, 4, 8).",
        "note": "Trusted: TLC arithmetic; float64 coordinate comparison; weight sums to 0.2 %. Oblique angles "
                "are relational only.",
        "technique": "TLA+ exact geometry checked by TLC; exported cases replayed into the implementation",
        "design_ref": "DESIGN.md section 4 (C15)",
    },
    "C02": {
        "text": "FwdModelZi.tla IS the independent reference implementation the property asks for: a step-wise "
                "(Start, Transmit, ToSpectrum, Propagate, Back, Detect) multislice mixed-state forward model over "
                "the Gaussian integers - ROI 2x2 / 4x4 (DFT entries in {1,-i,-1,i}), quarter-turn object phases, "
                "Gaussian-integer probe modes, integer AND half-pixel scan positions (2x2 ROI: the sub-pixel Fourier "
                "shift is exact in the Gaussian integers after scaling) with wrap-around, quarter-wave slices. TLC "
                "checks WaveEnergy at every step, IntensityConserved and Orthogonal, rejects a wrong twiddle "
                "exponent, and exports the exact integer patterns unperturbed and with one object pixel / one "
                "probe pixel turned by a quarter turn. The library is fed the exact data (Dataset4dstem -> its own "
                "preprocessing with no_shift), given the ground truth through its public constructors/setters, and "
                "every data-fidelity loss (l1/l2 amplitude/intensity) must vanish for every batch size, object "
                "type (complex, pure_phase, potential) and object padding; at TLC-certified perturbations the loss "
                "must be strictly larger. This decides the convention half of the property (patch index order and "
                "wrap, fftshift, normalisation, propagator sign, mode sum) exactly."
                " Supplementary and labelled as such (not model-decided): data from the fixture's independent float64 NumPy forward model on larger / non-square ROIs (8..28, incl. sizes where k/n*n does not come back to k in floating point), fractional positions, 1-3 modes, 1-4 slices, paddings; the loss at that truth must vanish to float32 precision. Histories: probe modes installed weakest-first, a second reconstruction object with another beam energy alive, a dataset object preprocessed before with other options.",
        "note": "NOT reached: fractional positions other than half pixels, odd / non-square ROIs, generic phases and probes, constant "
                "descan (the exact sub-domain only). Trusted: TLC arithmetic, the fixture's geometry glue. Zero "
                "tolerances reflect the library's eps=1e-9 under the square root.",
        "technique": "TLA+ Gaussian-integer reference model executed by TLC; exact data replayed into the "
                     "library's forward pipeline",
        "design_ref": "DESIGN.md section 4 (C02)",
    },
    "C07": {
        "text": "PARTIAL, by design. RadonRight.tla decides the exact sub-domain: at projection angles 0/90/180 degrees "
                "the Radon transform and the unfiltered back-projection are integer arithmetic; the model is a step-wise "
                "pipeline (Mask, Project per angle, BackProject per angle, Finish) written from scikit-image's conventions "
                "(disc mask, rotation about N//2, zero outside, scale pi/2A symbolic). TLC checks ZeroDegColumnSums (the "
                "property's column-sum clause), MassKept, Adjoint and AngleOnly for N = 3..7, 24 images, all angle sequences "
                "of length <= 3, and rejects the pinned tree's mirrored sampling grid. Every behaviour is replayed into "
                "radon_torch / iradon_torch single, batched and for the sum of two images: sinograms and reconstructions "
                "must equal the model's integers (x pi/2A), which decides geometry conventions, linearity and batch = "
                "per-image on that sub-domain. NOT decided by the model: oblique angles and the Fourier filters. For "
                "those the check compares directly with the reference the property names (skimage.transform.radon / "
                "iradon / _get_fourier_filter) at enumerated sizes (odd/even, incl. sizes whose padded FFT length "
                "differs), 8 angle sets, 3 image kinds, 6 filters, circle / output-size options, and checks linearity "
                "and batching relationally - a differential comparison, recorded as such in the evidence.",
        "note": "The differential part is sampling against a floating-point reference (scikit-image 0.26), tolerance 3e-4 "
                "relative; circle=False / enlarged output grids are compared at generic oblique angles only (at right angles "
                "grid points fall exactly on the last sinogram sample and the reference itself is ill-conditioned there). "
                "float32 inputs only (grid_sample rejects float64 images against the float32 grid).",
        "technique": "TLA+ exact right-angle model checked by TLC, behaviours replayed into the implementation; "
                     "supplementary differential comparison with scikit-image outside the model's reach",
        "design_ref": "DESIGN.md section 4 (C07)",
    },
    "C20": {
        "text": "NormOrder.tla models display normalisation ordinally and in exact rationals: arrays (length 2..4) "
                "over small integers and the tokens NaN/+inf/-inf with at least two distinct finite values; "
                "manual (given / data-derived limits), centred (given / data-derived half range) and quantile "
                "(numpy linear interpolation) intervals with lo < hi; every element mapped to "
                "clip((x-lo)/(hi-lo), 0, 1), NaN masked, a stretch abstracted to ANY strictly increasing "
                "bijection of [0,1] fixing 0 and 1. TLC checks Range, Monotone, EndPoints and NaNMasked over "
                "every array x configuration and rejects a variant that does not clip below the lower limit. "
                "Every exported case is replayed into CustomNormalization for 8 stretch configurations, limits "
                "taken at call time and frozen from data=, float64/float32/int32/int64, 1-D/2-D: masked pattern, "
                "0 / 1 / interior classification, the order of the outputs, the frozen limits and (linear "
                "stretch) the values must be the model's. The abstraction premise - each concrete stretch is a "
                "strictly increasing bijection fixing 0 and 1, and stretch o inverse = id - is checked on a "
                "41-point grid for 17 stretch objects; all named presets run on every fifth case."
                " A warm-up array models reuse of one normalisation object on several arrays (LimitsOfCurrentData; negative control: limits frozen by the first array).",
        "note": "The real-valued part (monotonicity of each stretch between grid points, arbitrary float "
                "parameters) is sampled, not decided: the model decides the interval/clip/mask logic exactly and "
                "the ORDER consequences. Trusted: TLC arithmetic; float comparison at 2e-6 (float32 inputs).",
        "technique": "TLA+ exact-rational / ordinal model checked by TLC; exported cases replayed into the "
                     "implementation",
        "design_ref": "DESIGN.md section 4 (C20)",
    },
}
