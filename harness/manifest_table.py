"""Claimed properties: level text, trusted base, technique, DESIGN section."""
CLAIMED = {
    "C19": {
        "text": "ConfigStore.tla specifies the store as a last-writer-wins tree with canonical keys, "
                "accumulated defaults, config-file overlay and with-block undo frames; TLC checks "
                "LastWriterWins, SiblingsKept, RefreshRestores, DefaultsRespectUser and WithRestores "
                "on the bounded instance (ConfigMC) and rejects three wrong variants. TLC then "
                "generates operation scripts (exhaustive to depth 2/3, simulated 30-step walks) which "
                "are executed on the real config functions; every recorded execution (arguments, "
                "raised flag, full observed configuration and get() results after each call) is "
                "validated against the specification by TLC (ConfigTrace.tla). Bounded model "
                "checking plus trace validation is the right level: the property is about every "
                "history of a small sequential state machine.",
        "note": "Trusted: TLC, the JSON trace codec, the driver's mapping from script actions to "
                "public calls (private config/defaults passed through the public parameters). Key "
                "kinds are type-consistent across writers; CUDA/MPS unavailable so device requests "
                "are exercised for rejection only.",
        "technique": "TLA+ spec + TLC model checking; TLC-generated scripts executed on the code; "
                     "recorded traces validated against the spec with TLC",
        "design_ref": "DESIGN.md section 4 (C19)",
    },
    "C17": {
        "text": "UnwrapUF.tla models reliability-sorted unwrapping as a union-find with offsets over "
                "integer phases (units of 2*pi/K) where Union(e) is enabled for ANY remaining edge; "
                "TLC checks TreeConsistent (inductive), Final (original field up to one constant per "
                "mask component), Untouched and Acyclic for every Itoh field, every mask and every "
                "merge order on small bounded and periodic grids, and rejects a sign-flipped variant. "
                "Every initial state TLC enumerates (and simulated constructive fields up to 8x8, "
                "K=16) is replayed into unwrap_phase_2d_torch and the three clauses of the property "
                "are compared with the model's field and mask components.",
        "note": "Trusted: TLC, the quantisation argument (phases are multiples of 2*pi/K so float "
                "rounding cannot cross a decision boundary), the harness projection. The "
                "implementation is exercised with its own reliability order only; all other merge "
                "orders are covered on the model.",
        "technique": "TLA+ union-find model checked by TLC over all merge orders; TLC-exported "
                     "initial states replayed into the implementation",
        "design_ref": "DESIGN.md section 4 (C17)",
    },
    "C09": {
        "text": "Batcher.tla specifies per-epoch scheduling (any partition into train/validation, any "
                "order, full batches but the last, reported length = yielded, same-seed restart must "
                "replay the recorded batches, batch-mean = full-batch when bs divides the set) and TLC "
                "checks Partition, ExactlyOnce, EpochComplete, LenMatches, Deterministic and BatchMean on "
                "the bounded model, rejecting three wrong variants. Executions of the real SimpleBatcher "
                "(n<=12 x bs<=14|None x 9 ratios x grid/random x shuffle, two epochs + same-seed restart) "
                "and of Ptychography.reconstruct (hook events per batch; reset and twin runs on tiny "
                "synthetic datasets) are validated against the spec by TLC (BatcherTrace.tla). Where the "
                "model's BatchMean premise holds, the epoch-mean loss and gradients of the real "
                "reconstruction are compared with the full-batch ones; same-seed loss histories must be "
                "identical.",
        "note": "Trusted: TLC, the hook (one event per yielded batch, emitted inside the loop before the "
                "batch is used), the tiny synthetic fixture. Numeric comparisons: float32, rtol 2e-4 "
                "(loss) and 2e-3 of max|grad|; loss histories compared for equality on one CPU thread.",
        "technique": "TLA+ spec + TLC model checking; traces recorded from the code (hook + public "
                     "iterator) validated against the spec with TLC; model-guided numeric replay",
        "design_ref": "DESIGN.md section 4 (C09)",
    },
}
