"""X02 (extra coverage, not one of the listed properties) — per-projection parameter state of TomographyDataset.

TiltSeriesState.tla specifies the current / initial copies of the four per-projection arrays under setters (with and
without validation), in-place updates, reset() and to(); TLC checks RejectedLeavesState, NoAliasing, ResetRestores and
InitialStable and rejects a reset() that installs the initial tensors themselves.  Exported behaviours are replayed into
the real class; after each call the projection (projection count, lengths and values of the eight arrays), the
refusal and the absence of shared storage between current and initial arrays are compared.
"""
from __future__ import annotations

import json
import os
import random
import warnings

import numpy as np

from harness.common import tlc
from harness.common.par import pmap
from harness.common.tlc import MachineryError

SPEC = os.path.join(tlc.SPECS, "tiltseries")
N0 = 2
ATTR = {"tilt": "tilt_angles", "z1": "z1_angles", "z3": "z3_angles", "shifts": "shifts"}


def _arr(f, length, val, as_tensor):
    import torch
    shape = (length, 2) if f == "shifts" else (length,)
    a = np.full(shape, float(val), dtype=np.float32)
    return torch.tensor(a) if as_tensor else a


def _proj(t):
    import torch
    t = t.detach().cpu() if isinstance(t, torch.Tensor) else torch.as_tensor(np.asarray(t))
    vals = torch.unique(t).tolist()
    return int(t.shape[0]), (vals[0] if len(vals) == 1 else vals)


def replay_behaviour(arg):
    hist, idx = arg
    warnings.filterwarnings("ignore")
    import torch
    from quantem.tomography.tomography_dataset import TomographyDataset
    out = []
    ds = TomographyDataset.from_data(tilt_series=np.zeros((N0, 3, 3), dtype=np.float32), tilt_angles=np.zeros(N0, dtype=np.float32))
    for k, ev in enumerate(hist):
        op, f = ev["op"], ev["f"]
        tag = f"[event {k} {op} {f} len={ev['len']} val={ev['val']}]"
        raised = None
        try:
            if op == "set":
                setattr(ds, ATTR[f], _arr(f, ev["len"], ev["val"], (idx + k) % 2 == 0))
            elif op == "set_initial":
                setattr(ds, "initial_" + ATTR[f], _arr(f, ev["len"], ev["val"], True))
            elif op == "set_series":
                ds.tilt_series = np.zeros((ev["len"], 3, 3), dtype=np.float32) if (idx + k) % 2 else torch.zeros(ev["len"], 3, 3)
            elif op == "inplace":
                getattr(ds, ATTR[f]).mul_(0).add_(float(ev["val"]))
            elif op == "reset":
                ds.reset()
            elif op == "to":
                ds.to("cpu")
            else:
                raise MachineryError(f"unknown op {op}")
        except MachineryError:
            raise
        except ValueError as ex:
            raised = ex
        except Exception as ex:  # noqa: BLE001
            out.append(("X02:raised", f"{tag} unexpected {type(ex).__name__}: {str(ex)[:160]}"))
            return out
        if bool(ev["ok"]) != (raised is None):
            out.append((f"X02:{op}:refusal", f"{tag} model ok={ev['ok']}, real {'raised ' + repr(raised) if raised else 'accepted'}"))
            return out
        post = ev["post"]
        if int(ds.tilt_series.shape[0]) != post["n"]:
            out.append((f"X02:{op}:projection", f"{tag} number of projections {ds.tilt_series.shape[0]} != {post['n']}"))
            return out
        for which, pre in (("cur", ""), ("ini", "initial_")):
            for g, a in ATTR.items():
                got = _proj(getattr(ds, pre + a))
                want = (post[which][g]["len"], float(post[which][g]["val"]))
                if got != want:
                    out.append((f"X02:{op}:projection", f"{tag} {pre}{a} is (len, value) {got}, model {want}"))
                    return out
        ptrs_c = {a: getattr(ds, a).untyped_storage().data_ptr() for a in ATTR.values()}
        ptrs_i = {a: getattr(ds, "initial_" + a).untyped_storage().data_ptr() for a in ATTR.values()
                  if isinstance(getattr(ds, "initial_" + a), torch.Tensor)}
        if set(ptrs_c.values()) & set(ptrs_i.values()):
            out.append((f"X02:{op}:aliasing", f"{tag} a current array shares its storage with an initial array"))
            return out
    return out


def check(rep, tier, seed):
    quick = tier == "quick"
    rep.assume("extra coverage beyond the listed properties; CPU only (to('cpu') is the only device move available)")
    import shutil
    import tempfile
    tmp = tempfile.mkdtemp(prefix="x02_")
    try:
        c = tlc.cfg_variant(os.path.join(SPEC, "TiltMC.cfg"), tmp, "mc.cfg", {"MaxLen": 4 if quick else 5})
        r = tlc.run_tlc("TiltSeriesState", c, spec_dir=SPEC, workers=16, timeout=3000)
        rep.add_tlc(r, "TiltSeriesState: RejectedLeavesState / NoAliasing / ResetRestores / InitialStable")
        tlc.expect_clean(r, "TiltMC")
        rn = tlc.run_tlc("TiltSeriesState", "TiltNEG.cfg", spec_dir=SPEC, workers=8, timeout=900)
        tlc.expect_violation(rn, "TiltNEG (reset installs the initial tensors themselves)", "NoAliasing")
        rep.note("negative_controls", ["TiltNEG: reset() without cloning"])
        g = tlc.run_tlc("TiltSeriesState", "TiltGEN.cfg", spec_dir=SPEC, workers=1, timeout=3000)
        tlc.expect_clean(g, "TiltGEN")
    finally:
        shutil.rmtree(tmp, ignore_errors=True)
    hists = g.cases
    if not hists:
        raise MachineryError("no behaviours exported")
    total = len(hists)
    random.Random(seed).shuffle(hists)
    hists = hists[: (3000 if quick else total)]
    rep.note("behaviours", {"enumerated": total, "replayed": len(hists)})
    rep.sample({"behaviour": [{k: e[k] for k in ("op", "f", "len", "val", "ok")} for e in hists[0]]})
    res = pmap(replay_behaviour, [(h, i) for i, h in enumerate(hists)], procs=16, chunk=128)
    for h, probs in zip(hists, res):
        rep.add_traces(1)
        rep.add_eval(len(h))
        rep.add_distinct([(e["op"], e["f"], e["len"], e["val"]) for e in h])
        for key, msg in probs:
            rep.mismatch(key, msg, {"behaviour": [{k: e[k] for k in ("op", "f", "len", "val", "ok")} for e in h], "full": h, "message": msg})
    rule = ("behaviours of TiltSeriesState (length 3 over setters of current / initial arrays, the tilt series, in-place "
            "updates, reset, to) exported by TLC with full post-states; a seeded sample replayed into TomographyDataset")
    return rule, not quick


def replay(path):
    body = json.load(open(path))
    out = replay_behaviour((body["replay"]["full"], 0)) + replay_behaviour((body["replay"]["full"], 1))
    for o in out:
        print(o)
    return 1 if out else 0
