"""C08 — failed saves leave no loadable partial object; write-once.  SaveFaults.tla (S->C).

TLC checks NoPartialLoadable / WriteOnce / OnlyTarget on the step-wise save model with a Fail
action between any two steps and rejects the pinned-tree variant (no clean-up).  Every
scenario TLC enumerates (store, mode, pre-existing target kind, fault phase and position,
two consecutive saves) is replayed against the real save() with an exception injected at the
corresponding external boundary (zarr LocalStore.set, ZipFile.write, torch.save, an
unserialisable attribute); afterwards the real file system is inspected.
"""
from __future__ import annotations

import contextlib
import hashlib
import io
import json
import os
import random
import shutil
import tempfile
import zipfile

from harness.common import tlc
from harness.common.par import pmap
from harness.common.tlc import MachineryError
from harness.zarr_util import quiesce, reset_after_fork

SPEC = os.path.join(tlc.SPECS, "savefaults")


class Injected(OSError):
    pass


class Injector:
    def __init__(self):
        self.counts = {"store": 0, "zip": 0, "torch": 0}
        self.fail = None          # (boundary, k)

    def tick(self, b):
        self.counts[b] += 1
        if self.fail and self.fail[0] == b and self.counts[b] == self.fail[1]:
            raise Injected(f"injected fault at {b} call {self.fail[1]}")


@contextlib.contextmanager
def injection(inj):
    import torch
    from zarr.storage import LocalStore
    orig_set, orig_zip, orig_ts = LocalStore.set, zipfile.ZipFile.write, torch.save

    async def set_(self, key, value, *a, **k):
        inj.tick("store")
        return await orig_set(self, key, value, *a, **k)

    def zwrite(self, *a, **k):
        inj.tick("zip")
        return orig_zip(self, *a, **k)

    def tsave(*a, **k):
        inj.tick("torch")
        return orig_ts(*a, **k)

    LocalStore.set, zipfile.ZipFile.write, torch.save = set_, zwrite, tsave
    try:
        yield
    finally:
        LocalStore.set, zipfile.ZipFile.write, torch.save = orig_set, orig_zip, orig_ts


def tree_hash(path):
    h = hashlib.sha1()
    if not os.path.lexists(path):
        return "absent"
    if os.path.isfile(path):
        h.update(open(path, "rb").read())
        return "file:" + h.hexdigest()
    for dp, dn, fn in sorted(os.walk(path)):
        dn.sort()
        for f in sorted(fn):
            p = os.path.join(dp, f)
            h.update(os.path.relpath(p, path).encode())
            h.update(open(p, "rb").read())
    return "dir:" + h.hexdigest()


def make_obj(ident, shape_id):
    """Distinguishable complete objects: `ident` is stored in several attributes."""
    import numpy as np
    import torch
    from harness.sclasses import Inner, Root
    if shape_id == 0:
        return Root(ident=ident, name=f"obj{ident}", flag=True, ratio=0.5 + ident)
    if shape_id == 1:
        return Root(ident=ident, arr=np.arange(6.0).reshape(2, 3) + ident, t=torch.ones(3) * ident,
                    items=[1, "a", None], child=Inner(x=np.array(float(ident)), y="s"),
                    tags={"a", "b"}, last=ident)
    return Root(ident=ident, nested={"k": [np.arange(3) + ident, (1, 2)], "j": Inner(z=ident)},
                seq=[Inner(q=ident), [1.5, 2.5]], t=torch.arange(4.0) + ident,
                child=Inner(c=Inner(d=ident), e=[ident, "x"]), last=ident)


def attr_names(ident, shape_id):
    return set(vars(make_obj(ident, shape_id)))


def is_complete(obj, ident, shape_id):
    """The loaded object is exactly the complete object `ident`."""
    import numpy as np
    import torch
    want = make_obj(ident, shape_id)

    def eq(a, b):
        if type(a) is not type(b):
            return False
        if isinstance(a, np.ndarray):
            return a.shape == b.shape and a.dtype == b.dtype and np.array_equal(a, b)
        if isinstance(a, torch.Tensor):
            return a.shape == b.shape and torch.equal(a, b)
        if isinstance(a, (list, tuple)):
            return len(a) == len(b) and all(eq(x, y) for x, y in zip(a, b))
        if isinstance(a, dict):
            return a.keys() == b.keys() and all(eq(a[k], b[k]) for k in a)
        if hasattr(a, "__dict__") and not isinstance(a, type):
            return eq(vars(a), vars(b))
        return a == b
    return eq(obj, want)


def count_boundaries(shape_id, store, work):
    from quantem.core.io.serialize import AutoSerialize  # noqa: F401
    inj = Injector()
    p = os.path.join(work, "count.zip" if store == "zip" else "count")
    with injection(inj), contextlib.redirect_stdout(io.StringIO()):
        make_obj(0, shape_id).save(p, store=store)
    quiesce()
    if os.path.isdir(p):
        shutil.rmtree(p)
    else:
        os.remove(p)
    return dict(inj.counts)


def concrete_faults(ev, counts, every, n_model=3):
    """Map the model's abstract fault (phase, at) to concrete (boundary, k) candidates."""
    phase, at = ev["ev"][5:], ev["at"]
    if phase == "zipping":
        b, total = "zip", counts["zip"]
    else:
        b, total = "store", counts["store"]
    if phase == "removed":
        return [(b if phase != "zipping" else "store", 1)]
    if total < 1:
        raise MachineryError(f"no {b} boundary crossings counted")
    if every:
        # the abstract position selects a third of the concrete range; all k in it
        lo = (at * total) // (n_model + 1) + 1
        hi = max(lo, ((at + 1) * total) // (n_model + 1))
        return [(b, k) for k in range(lo, hi + 1)]
    k = 1 + (at * (total - 1)) // n_model
    return [(b, max(1, min(total, k)))]


def make_junk(target):
    """an unreadable directory: part of a tree, no root marker (what a straggling zarr write leaves)."""
    os.makedirs(os.path.join(target, "arr", "c"))
    with open(os.path.join(target, "arr", "c", "0"), "wb") as f:
        f.write(b"\x00" * 16)


def real_kind(target):
    """none / foreign / zip / dir (a directory that loads) / junk (a directory that does not load)."""
    from quantem.core.io.serialize import load
    if not os.path.lexists(target):
        return "none"
    if os.path.isdir(target):
        try:
            with contextlib.redirect_stdout(io.StringIO()):
                load(target)
            return "dir"
        except Exception:  # noqa: BLE001
            return "junk"
    return "zip" if zipfile.is_zipfile(target) else "foreign"


def run_scenario(arg):
    """Replays one model scenario.  Returns list of (key, msg) problems."""
    sc, idx, every = arg
    from quantem.core.io.serialize import load
    reset_after_fork()
    problems = []
    events = sc["init"]
    stores = {e["store"] for e in events}
    if len(stores) != 1:
        return problems                     # the two stores never share a target path
    store = stores.pop()
    shape_id = idx % 3
    work = tempfile.mkdtemp(prefix="c08_")
    old_tmp = tempfile.tempdir
    try:
        tdir = os.path.join(work, "systmp")
        os.makedirs(tdir)
        tempfile.tempdir = tdir
        base = os.path.join(work, "fs")
        os.makedirs(base)
        target = os.path.join(base, "t.zip" if store == "zip" else "t")
        # the zip store appends ".zip" to a path that lacks it (documented): half of the zip scenarios
        # pass the bare path; the real target is still t.zip and the bare path "t" holds an unrelated
        # directory-store object that no save may touch
        bare = store == "zip" and idx % 2 == 1
        save_path = os.path.join(base, "t") if bare else target
        sibling = os.path.join(base, "sibling")
        with contextlib.redirect_stdout(io.StringIO()):
            make_obj(101, 1).save(sibling, store="dir")
            make_obj(101, 0).save(os.path.join(base, "sib2.zip"), store="zip")
        open(os.path.join(base, "t.bak"), "w").write("neighbour")
        if bare:
            with contextlib.redirect_stdout(io.StringIO()):
                make_obj(102, 0).save(os.path.join(base, "t"), store="dir")
        counts = count_boundaries(shape_id, store, work)
        completed = {}                      # ident -> shape_id of complete objects that exist
        # initial target as the model's first begin event says
        was = events[0]["ev"][6:]
        with contextlib.redirect_stdout(io.StringIO()):
            if was == "foreign":
                open(target, "w").write("not an archive")
            elif was == "junk":
                make_junk(target)
            elif was == "dir":
                make_obj(100, shape_id).save(os.path.join(base, "seed"), store="dir")
                os.rename(os.path.join(base, "seed"), target)
                completed[100] = shape_id
            elif was == "zip":
                make_obj(100, shape_id).save(os.path.join(base, "seed.zip"), store="zip")
                os.rename(os.path.join(base, "seed.zip"), target)
                completed[100] = shape_id
        def sib_state(root):
            return (tree_hash(os.path.join(root, "sibling")), tree_hash(os.path.join(root, "sib2.zip")),
                    tree_hash(os.path.join(root, "t")) if bare else "")
        sib_hash = sib_state(base)
        ident = 0
        i = 0
        while i < len(events):
            beg, res = events[i], events[i + 1]
            i += 2
            ident += 1
            mode = beg["mode"]
            before = tree_hash(target)
            existed = before != "absent"
            faults = [None]
            if res["ev"].startswith("fail-"):
                faults = concrete_faults(res, counts, every)
            # only the last listed concrete fault leaves its state for the next save; the
            # others are replayed on a scratch copy of the current file system
            for fi, fault in enumerate(faults):
                last = fi == len(faults) - 1
                if not last:
                    scratch = tempfile.mkdtemp(prefix="scratch_", dir=work)
                    shutil.copytree(base, scratch, symlinks=True, dirs_exist_ok=True)
                    tgt = os.path.join(scratch, os.path.basename(target))
                else:
                    scratch, tgt = None, target
                spath = os.path.join(os.path.dirname(tgt), "t") if bare else tgt
                inj = Injector()
                inj.fail = fault
                raised = None
                try:
                    with injection(inj), contextlib.redirect_stdout(io.StringIO()):
                        make_obj(ident, shape_id).save(spath, mode=mode, store=store)
                except Injected as ex:
                    raised = ex
                except FileExistsError as ex:
                    raised = ex
                except Exception as ex:  # noqa: BLE001
                    raised = ex
                quiesce()
                tag = f"[{store}{'(bare path)' if bare else ''}:{mode}:{res['ev']}@{res['at']}:{fault} was={beg['ev'][6:]} shape={shape_id}]"
                after = tree_hash(tgt)
                if res["ev"] == "exists":
                    if not isinstance(raised, FileExistsError):
                        problems.append(("write-once-not-raised", f"{tag} expected FileExistsError, got {raised!r}"))
                    if after != before:
                        problems.append(("write-once-modified", f"{tag} existing target was modified in mode 'w'"))
                elif res["ev"] == "ok":
                    if raised is not None:
                        problems.append(("save-raised", f"{tag} unexpected {type(raised).__name__}: {raised}"))
                    else:
                        try:
                            with contextlib.redirect_stdout(io.StringIO()):
                                got = load(tgt)
                            if not is_complete(got, ident, shape_id):
                                problems.append(("ok-not-complete", f"{tag} successful save does not load back complete"))
                        except Exception as ex:  # noqa: BLE001
                            problems.append(("ok-not-loadable", f"{tag} {type(ex).__name__}: {ex}"))
                        if last:
                            completed = {k: v for k, v in completed.items() if k != 100}
                            completed[ident] = shape_id
                else:
                    if raised is None:
                        raise MachineryError(f"{tag} injected fault did not fire (counts {inj.counts})")
                    # (which exception propagates is not part of the property: the staging
                    # directory clean-up may replace the injected one with its own OSError)
                    if mode == "w" and existed and after != before:
                        problems.append(("write-once-modified", f"{tag} existing target modified in mode 'w'"))
                    # the property: nothing partial is loadable
                    if after != "absent":
                        try:
                            with contextlib.redirect_stdout(io.StringIO()):
                                got = load(tgt)
                        except Exception:  # noqa: BLE001
                            got = None
                        if got is not None:
                            okc = any(is_complete(got, k, v) for k, v in completed.items()) and after == before
                            if not okc:
                                missing = sorted(attr_names(ident, shape_id) - set(vars(got)))
                                problems.append((f"partial-loadable:{store}:{res['ev'][5:]}",
                                                 f"{tag} failed save left a loadable object "
                                                 f"(attributes missing: {missing})"))
                    if last and after == "absent":
                        completed = {k: v for k, v in completed.items() if k == -1}
                    if last and after != before:
                        completed = {k: v for k, v in completed.items() if k != 100 and k != ident - 1}
                # other paths untouched, temporaries gone
                root = scratch if scratch else base
                if sib_state(root) != sib_hash or open(os.path.join(root, "t.bak")).read() != "neighbour":
                    problems.append(("sibling-modified", f"{tag} a path other than the target was modified"))
                extra = sorted(set(os.listdir(root)) - {"sibling", "sib2.zip", "t.bak", os.path.basename(target)} - ({"t"} if bare else set()))
                if extra:
                    problems.append(("stray-paths", f"{tag} save created other paths: {extra}"))
                if os.listdir(tdir):
                    problems.append((f"temp-left:{store}:{res['ev'][5:] if res['ev'].startswith('fail-') else res['ev']}",
                                     f"{tag} temporary files left behind: {os.listdir(tdir)[:3]}"))
                    for x in os.listdir(tdir):
                        shutil.rmtree(os.path.join(tdir, x), ignore_errors=True)
                if scratch:
                    shutil.rmtree(scratch, ignore_errors=True)
            # the model leaves, after a failed directory-store save, either nothing or an unreadable
            # remnant re-created by one of zarr's straggling writes.  Which of the two happens is a race the
            # harness cannot steer, so the real file system is brought to the model's choice: a remnant
            # (already checked above to be unreadable) is removed, or an unreadable directory is put in place
            left = res.get("left")
            if left == "none" and store == "dir" and res["ev"] == "fail-writing" and real_kind(target) == "junk":
                shutil.rmtree(target)
                problems.append(("note:straggler", ""))
            elif left == "junk" and not os.path.lexists(target):
                make_junk(target)
            # consistency of the replay with the model: kind of the target before the next save
            if i < len(events):
                nxt = events[i]["ev"][6:]
                real = real_kind(target)
                if nxt != real and not [p for p in problems if not p[0].startswith("note:")]:
                    problems.append(("model-mismatch", f"model expects target kind {nxt} before save "
                                                       f"{ident + 1}, real file system has {real}"))
    finally:
        tempfile.tempdir = old_tmp
        shutil.rmtree(work, ignore_errors=True)
    return problems


def natural_failures(rep):
    """An unserialisable attribute / a failing torch.save at several attribute positions."""
    import numpy as np
    import torch
    from quantem.core.io.serialize import load
    from harness.sclasses import Root, Unpicklable
    out = []
    for store in ("dir", "zip"):
        for pos in (0, 1, 3):
            for kind in ("unpicklable", "torch", "object-array", "ragged-array"):
                work = tempfile.mkdtemp(prefix="c08n_")
                try:
                    attrs = [("a", 1), ("b", np.arange(3)), ("c", "s"), ("d", torch.ones(2))]
                    if kind == "unpicklable":
                        bad = ("bad", Unpicklable())
                    elif kind == "torch":
                        bad = ("bad", torch.zeros(2))
                    elif kind == "object-array":          # a value kind the store cannot take (object dtype)
                        bad = ("bad", np.array([1, "a", None], dtype=object))
                    else:
                        ragged = np.empty(2, dtype=object)
                        ragged[0], ragged[1] = np.arange(2), np.arange(3)
                        bad = ("bad", ragged)
                    attrs.insert(pos, bad)
                    o = Root(**dict(attrs))
                    tgt = os.path.join(work, "t.zip" if store == "zip" else "t")
                    inj = Injector()
                    if kind == "torch":
                        inj.fail = ("torch", 1 if pos < 3 else 2)
                    try:
                        with injection(inj), contextlib.redirect_stdout(io.StringIO()):
                            o.save(tgt, store=store)
                        raised = False
                    except Exception:  # noqa: BLE001
                        raised = True
                    quiesce()
                    rep.add_eval(1)
                    rep.add_distinct(["natural", store, pos, kind])
                    if not raised and kind in ("object-array", "ragged-array"):
                        # whether such a value is refused or stored is the library's choice; what may not happen is a
                        # save that "succeeds" and loads to an object silently missing the attribute
                        try:
                            with contextlib.redirect_stdout(io.StringIO()):
                                got = load(tgt)
                            missing = sorted(set(dict(attrs)) - set(vars(got)))
                        except Exception as ex:  # noqa: BLE001
                            missing = [f"(load raised {type(ex).__name__})"]
                        if missing:
                            out.append((f"silently-missing:{store}:natural", f"{store} {kind}@{pos}: save() returned normally but the saved "
                                                                            f"object loads without {missing}"))
                        continue
                    if not raised:
                        out.append(("natural-not-raised", f"{store} {kind}@{pos}: save did not fail"))
                        continue
                    if os.path.lexists(tgt):
                        try:
                            with contextlib.redirect_stdout(io.StringIO()):
                                got = load(tgt)
                        except Exception:  # noqa: BLE001
                            got = None
                        if got is not None:
                            out.append((f"partial-loadable:{store}:natural",
                                        f"{store} {kind}@{pos}: failed save left a loadable object with "
                                        f"attributes {sorted(vars(got))}"))
                finally:
                    shutil.rmtree(work, ignore_errors=True)
    return out


def check(rep, tier, seed):
    quick = tier == "quick"
    rep.level = "model_checking"
    rep.assume("failures are exceptions raised at the serializer's external boundaries "
               "(zarr LocalStore.set, ZipFile.write, torch.save, pickling); process crashes are "
               "outside the claim", "zip and directory stores never share a target path, so "
               "scenarios mixing stores on one path are not replayed")
    r = tlc.run_tlc("SaveFaults", "SaveFaultsMC.cfg", spec_dir=SPEC, workers=8, timeout=900)
    rep.add_tlc(r, "SaveFaults: NoPartialLoadable / WriteOnce / OnlyTarget")
    tlc.expect_clean(r, "SaveFaultsMC")
    rn = tlc.run_tlc("SaveFaults", "SaveFaultsNEG.cfg", spec_dir=SPEC, workers=8, timeout=900)
    tlc.expect_violation(rn, "SaveFaultsNEG (no clean-up)", "NoPartialLoadable")
    rep.note("negative_controls", ["SaveFaultsNEG: pinned-tree variant without clean-up"])
    g = tlc.run_tlc("SaveFaults", "SaveFaultsGEN.cfg", spec_dir=SPEC, workers=1, timeout=900)
    tlc.expect_clean(g, "SaveFaultsGEN")
    scen = [s for s in g.cases if len({e["store"] for e in s["init"]}) == 1]
    total = len(scen)
    if quick:
        random.Random(seed).shuffle(scen)
        scen = scen[:160]
    rep.note("scenarios", {"enumerated_by_TLC": len(g.cases), "single_store": total,
                           "replayed": len(scen), "every_concrete_position": not quick})
    rep.sample({"scenario": scen[0]})
    res = pmap(run_scenario, [(s, i, not quick) for i, s in enumerate(scen)], procs=16, chunk=4)
    stragglers = [0]
    for s, probs in zip(scen, res):
        rep.add_traces(1)
        rep.add_eval(len(s["init"]) // 2)
        rep.add_distinct(s["init"])
        seen = set()
        for key, msg in probs:
            if key.startswith("note:"):
                stragglers[0] += 1
                continue
            k = f"C08:{key}"
            if k in seen:
                continue
            seen.add(k)
            rep.mismatch(k, msg, {"scenario": s, "message": msg})
    rep.note("straggler_remnants_seen", stragglers[0])
    for key, msg in natural_failures(rep):
        rep.mismatch(f"C08:{key}", msg, {"natural": msg})
    rule = ("fault scenarios are the behaviours of SaveFaults.tla exported by TLC (pre-existing "
            "target kind x store x mode x fault phase/position x two consecutive saves); each is "
            "replayed with an exception injected at the matching external boundary (thorough: at "
            "every concrete call index of the abstract position) and the real file system is "
            "inspected; plus natural failures (unserialisable attribute, failing torch.save)")
    return rule, not quick


def replay(path):
    body = json.load(open(path))
    rp = body["replay"]
    if "scenario" in rp:
        out = run_scenario((rp["scenario"], 1, True)) + run_scenario((rp["scenario"], 0, True)) \
            + run_scenario((rp["scenario"], 2, True))
        out = [o for o in out if not o[0].startswith("note:")]
        for o in out:
            print(o)
        return 1 if out else 0
    print(rp)
    return 1
