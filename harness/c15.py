"""C15 — drift-correction start geometry.  DriftGeom.tla (S->C, exact at right angles).

TLC computes the exact (doubled-integer) canvas coordinates of every pixel for scan directions
0/90/180/270 degrees, the canvas shape (round-half-even rule) and checks KnotIndependent,
CentreToCentre and Injective; the pinned-tree single-knot extent is rejected.  Every exported
case is replayed into DriftCorrection.preprocess for 1..4 knots (coordinates, canvas shape,
unit weight per pixel); other angles are checked relationally (knot-count independence,
rotation formula); identical stacks must be a fixed point of align_translation.
"""
from __future__ import annotations

import contextlib
import io
import json
import os
import random
import warnings

import numpy as np

from harness.common import tlc
from harness.common.par import pmap
from harness.common.tlc import MachineryError

SPEC = os.path.join(tlc.SPECS, "drift")
# the canvas is float32, so the Fourier cross-correlation of two IDENTICAL images is symmetric only to
# complex64 rounding and the parabolic vertex is ~1e-6..1e-5 px instead of 0 (exactly 0 with a float64
# canvas); 1e-4 px is two orders below the finest step 1/upsample of any factor used here
FIXED_POINT_TOL = 1e-4
OTHER_ANGLES = [17.0, 33.3, 45.0, 123.0, 200.5, 271.0, 359.0]


def build(images, angles, pf, k, kde=0.5):
    from quantem.imaging.drift import DriftCorrection
    dc = DriftCorrection.from_data(list(images), scan_direction_degrees=list(angles))      # (the caller's arrays themselves: see inputs-modified)
    dc.preprocess(pad_fraction=pf, pad_value="median", kde_sigma=kde, number_knots=k,
                  show_merged=False, show_images=False)
    return dc


def coords(dc, i):
    xa, ya = dc.interpolator[i].transform_coordinates(dc.knots[i])
    return np.asarray(xa, float), np.asarray(ya, float)


def run_case(arg):
    case, idx, quick = arg
    warnings.filterwarnings("ignore")
    out = []
    R, C, theta = case["r"], case["c"], case["theta"]
    pf = case["pf"][0] / case["pf"][1]
    x_want = np.array(case["x2"], float) / 2.0
    y_want = np.array(case["y2"], float) / 2.0
    rng = np.random.default_rng(idx)
    nimg = 2 + idx % 3
    images = [rng.integers(1, 50, size=(R, C)).astype(float) for _ in range(nimg)]
    tag = f"shape={R}x{C} angle={theta} pad={case['pf']} n={nimg}"

    def bad(key, msg):
        out.append((key, f"{tag}: {msg}"))
    try:
        with contextlib.redirect_stdout(io.StringIO()):
            ref = None
            images0 = [im.copy() for im in images]
            for k in (1, 2, 3, 4):
                dc = build(images, [theta] * nimg, pf, k, kde=[0.5, 1.0, 0.25][idx % 3])
                if tuple(dc.shape[1:]) != (case["h"], case["w"]):
                    bad("C15:canvas-shape", f"canvas {tuple(dc.shape[1:])} != {(case['h'], case['w'])}")
                    break
                for i in range(nimg):
                    xa, ya = coords(dc, i)
                    if xa.shape != (R, C) or max(np.abs(xa - x_want).max(), np.abs(ya - y_want).max()) > 1e-9:
                        dev = max(np.abs(xa - x_want).max(), np.abs(ya - y_want).max()) if xa.shape == (R, C) else float("nan")
                        bad(f"C15:coordinates:knots={k}:{'non-square' if R != C else 'square'}",
                            f"{k} knot(s): coordinates deviate from the exact placement by {dev:.4g} px")
                        break
                    wsum = float(np.asarray(dc.weights_warped.array[i], float).sum())
                    if abs(wsum - R * C) > 2e-3 * R * C:
                        bad("C15:unit-weight", f"{k} knot(s): weight map sums to {wsum:.4f}, image has {R * C} pixels")
                        break
                else:
                    continue
                break
            if not all(np.array_equal(a, b) for a, b in zip(images, images0)):
                bad("C15:inputs-modified", "the caller's images were modified")
            # the VALUES land where the coordinates say: one bright pixel, handed over C-ordered, Fortran-ordered or as
            # a transposed view, is deposited around the exact canvas position of that pixel
            # an interior pixel (next to the border the count normalisation pulls the centroid inwards)
            r0 = R // 2 if R < 5 else R // 2 - idx % 2
            c0 = C // 2 if C < 5 else C // 2 - (idx // 2) % 2
            delta = np.zeros((R, C))
            delta[r0, c0] = 1.0
            lay = idx % 3
            dimg = delta if lay == 0 else np.asfortranarray(delta) if lay == 1 else np.ascontiguousarray(delta.T).T
            dc = build([dimg, dimg.copy()], [theta, theta], max(pf, 0.25), 1 + idx % 4, kde=0.5)
            wimg = np.asarray(dc.images_warped.array[0], float)
            tot = wimg.sum()          # (the warped image is signal / weight: its total is not the deposited mass)
            if not tot > 1e-6:
                bad("C15:value-placement", f"one unit pixel ({['C', 'F', 'transposed view'][lay]} order) leaves nothing on the canvas")
            else:
                gx, gy = np.meshgrid(np.arange(wimg.shape[0]), np.arange(wimg.shape[1]), indexing="ij")
                cx, cy = float((wimg * gx).sum() / tot), float((wimg * gy).sum() / tot)
                xa, ya = coords(dc, 0)
                if max(abs(cx - xa[r0, c0]), abs(cy - ya[r0, c0])) > 0.2:
                    bad("C15:value-placement", f"pixel ({r0},{c0}) of a {['C', 'F', 'transposed view'][lay]}-ordered image lands at "
                                               f"({cx:.3f},{cy:.3f}), its coordinates are ({xa[r0, c0]:.3f},{ya[r0, c0]:.3f})")
            # preprocess is a function of its arguments and the current scan directions: the SAME object, first
            # preprocessed with another direction / pad fraction / knot count, must give the exact placement again
            other = [35.0, (theta + 90) % 360, 200.5][idx % 3]
            for k in ((1, 2) if not quick else (1 + idx % 2,)):
                if (idx + k) % 2:       # only the direction changes between the two calls ...
                    dc = build(images, [other] * nimg, pf, k)
                else:                   # ... or the pad fraction and the knot count change as well
                    dc = build(images, [other] * nimg, min(pf + 0.125, 0.5), 3 if k == 1 else 1)
                dc.scan_direction_degrees = [theta] * nimg
                dc.preprocess(pad_fraction=pf, pad_value="median", kde_sigma=0.5, number_knots=k,
                              show_merged=False, show_images=False)
                if tuple(dc.shape[1:]) != (case["h"], case["w"]):
                    bad("C15:repeat-preprocess", f"second preprocess on the same object: canvas {tuple(dc.shape[1:])} != {(case['h'], case['w'])}")
                    break
                xa, ya = coords(dc, nimg - 1)
                dev = max(np.abs(xa - x_want).max(), np.abs(ya - y_want).max()) if xa.shape == (R, C) else float("nan")
                if not dev <= 1e-9:
                    bad("C15:repeat-preprocess", f"{k} knot(s): after an earlier preprocess with direction {other} the coordinates deviate "
                                                 f"from the exact placement by {dev:.4g} px")
                    break
            # identical images, same scan direction: fixed point of translation alignment
            same = [images[0]] * nimg
            for k, u in ((1, 8), (2, 1), (3, 4), (4, 3), (1, 5), (2, 7), (3, 16)) if not quick else \
                    ((1 + idx % 3, [8, 1, 4][idx % 3]), (1 + (idx + 1) % 4, [3, 5, 7, 2][idx % 4])):
                dc = build(same, [theta] * nimg, pf, k)
                before = [kn.copy() for kn in dc.knots]
                dc.align_translation(upsample_factor=u, show_merged=False, show_images=False)
                mv = max(float(np.abs(a - b).max()) for a, b in zip(before, dc.knots))
                if mv > FIXED_POINT_TOL:
                    bad(f"C15:fixed-point:upsample={'1' if u == 1 else '>1'}", f"{k} knot(s), upsample {u}: identical images moved the knots by {mv:.4g} px")
                    break
            # other angles: knot-count independence and the rotation formula
            for ang in (OTHER_ANGLES if not quick else OTHER_ANGLES[idx % 7: idx % 7 + 2]):
                t = np.deg2rad(ang)
                fast = np.array([np.sin(-t), np.cos(-t)])
                slow = np.array([np.cos(-t), -np.sin(-t)])
                v = np.arange(R)[:, None] - (R - 1) / 2
                u = np.arange(C)[None, :] - (C - 1) / 2
                base = None
                for k in (1, 2, 3, 4):
                    dc = build(images[:2], [ang, ang], pf, k)
                    xa, ya = coords(dc, 0)
                    H, W = dc.shape[1:]
                    xw = (H - 1) / 2 + u * fast[0] + v * slow[0]
                    yw = (W - 1) / 2 + u * fast[1] + v * slow[1]
                    if max(np.abs(xa - xw).max(), np.abs(ya - yw).max()) > 1e-8:
                        bad(f"C15:coordinates:knots={k}:{'non-square' if R != C else 'square'}",
                            f"angle {ang}: {k} knot(s) deviate from centre + rotation(offset) by "
                            f"{max(np.abs(xa - xw).max(), np.abs(ya - yw).max()):.4g} px")
                        break
                    if base is not None and max(np.abs(xa - base[0]).max(), np.abs(ya - base[1]).max()) > 1e-8:
                        bad("C15:knot-independence", f"angle {ang}: {k} knots differ from 1 knot")
                        break
                    base = base or (xa, ya)
                    wsum = float(np.asarray(dc.weights_warped.array[0], float).sum())
                    if abs(wsum - R * C) > 2e-3 * R * C:
                        bad("C15:unit-weight", f"angle {ang}, {k} knot(s): weight map sums to {wsum:.4f} != {R * C}")
                        break
    except Exception as ex:  # noqa: BLE001
        bad("C15:raised", f"{type(ex).__name__}: {str(ex)[:200]}")
    return out


def check(rep, tier, seed):
    quick = tier == "quick"
    rep.assume("exact placement compared at 1e-9 px for right angles; other angles relationally (1e-8 px)",
               "stacks of 2..4 images of equal shape; identical-stack fixed point checked with the NumPy estimator "
               "the library uses (upsample 1..16); zero means < 1e-4 px because the canvas is float32", "weight sums compared to 0.2 % (float32 accumulation)")
    r = tlc.run_tlc("DriftGeom", "DriftMC.cfg", spec_dir=SPEC, workers=8, timeout=900)
    rep.add_tlc(r, "DriftGeom: KnotIndependent / CentreToCentre / Injective")
    tlc.expect_clean(r, "DriftMC")
    rn = tlc.run_tlc("DriftGeom", "DriftNEG.cfg", spec_dir=SPEC, workers=4, timeout=600)
    tlc.expect_violation(rn, "DriftNEG (single-knot extent)", "KnotIndependent")
    rep.note("negative_controls", ["DriftNEG: single-knot path scaled by rows-1"])
    g = tlc.run_tlc("DriftGeom", "DriftGEN.cfg", spec_dir=SPEC, workers=1, timeout=900)
    tlc.expect_clean(g, "DriftGEN")
    cases = g.cases
    if not cases:
        raise MachineryError("no cases exported")
    total = len(cases)
    if quick:
        random.Random(seed).shuffle(cases)
        cases = cases[:32]
    rep.note("cases", {"exported": total, "replayed": len(cases)})
    rep.sample({"case": {k: cases[0][k] for k in ("r", "c", "theta", "pf", "h", "w")}, "x2_row0": cases[0]["x2"][0]})
    res = pmap(run_case, [(c, i, quick) for i, c in enumerate(cases)], procs=16, chunk=1)
    for c, probs in zip(cases, res):
        rep.add_traces(1)
        rep.add_eval(4)
        rep.add_distinct([c["r"], c["c"], c["theta"], c["pf"]])
        seen = set()
        for key, msg in probs:
            if key not in seen:
                seen.add(key)
                rep.mismatch(key, msg, {"case": c, "message": msg})
    rule = ("cases are the (shape, right angle, pad fraction) initial states of DriftGeom exported by TLC with exact "
            "coordinates (7 shapes incl. non-square/odd x 4 angles x 5 pad fractions); each replayed for 1..4 knots, "
            "2..4 images, KDE widths; plus 7 oblique angles per case relationally and the identical-stack fixed point; "
            "distinct by (shape, angle, pad fraction)")
    return rule, not quick


def replay(path):
    body = json.load(open(path))
    out = run_case((body["replay"]["case"], 0, False))
    for o in out:
        print(o)
    return 1 if out else 0
