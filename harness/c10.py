"""C10 (PARTIAL) — admissible object / probe models after the hard constraints.  Admissible.tla (S->C).

Object part: TLC enumerates every constraint configuration x raw-amplitude class x field-of-view mask of a tiny
object and pushes amplitude BOUNDS through the constraint pipeline; the real ObjectPixelated is driven with raw
parameters of exactly those amplitude classes (phases varied) and must stay inside the bounds (entries the model
calls exact must hit the value), keep tied slices identical and be amplitude-idempotent where the model says so.
Probe part: TLC runs Gram-Schmidt + norm restoration + intensity sort exactly over the Gaussian integers; the same
mode sets go through ProbeConstraints._probe_orthogonalization_constraint / ProbePixelated.probe and through the
requested-weight normalisation (set_initial_probe / _apply_weights).
"""
from __future__ import annotations

import json
import math
import os
import random
import shutil
import tempfile
import types
import warnings

import numpy as np

from harness.common import tlc
from harness.common.par import pmap
from harness.common.tlc import MachineryError

SPEC = os.path.join(tlc.SPECS, "constraints")
UNIT = 20.0
INF = 1000000
PHASES = [0.0, math.pi / 2, math.atan2(4, 3), math.pi, -2.3, 0.7, -math.pi / 2, 3.0]
TOL = 2e-6


def run_object(arg):
    case, idx = arg
    warnings.filterwarnings("ignore")
    import torch
    from quantem.diffractive_imaging.object_models import ObjectPixelated
    out = []
    cfg = case["cfg"]
    ns, npx = case["ns"], case["npx"]
    ot = cfg["otype"]
    tag = f"object case={idx} cfg={cfg} raw={case['raw']} mask={case['mask']}"

    def bad(key, msg):
        out.append((key, f"{tag}: {msg}"))
    try:
        vals = []
        for e, r in enumerate(case["raw"]):
            if ot == "potential":
                vals.append(r / UNIT)
            else:
                ph = PHASES[(idx + 3 * e) % len(PHASES)]
                vals.append((r / UNIT) * complex(math.cos(ph), math.sin(ph)))
        shape = (ns, 1, npx) if idx % 2 else (ns, npx, 1)
        raw = torch.tensor(np.array(vals).reshape(shape), dtype=torch.float32 if ot == "potential" else torch.complex64)
        mask3d = torch.tensor(np.array(case["mask"], dtype=np.float32).reshape(shape) / UNIT)      # one value per slice and pixel
        om = ObjectPixelated.from_uniform(num_slices=ns, slice_thicknesses=(2.0 if ns > 1 else None), obj_type=ot)
        om.constraints = {"apply_fov_mask": bool(cfg["fov"]), "identical_slices": bool(cfg["tie"]),
                          "positivity": bool(cfg["pos"]), "fix_potential_baseline": cfg["base"] == "on"}
        raw0 = raw.clone()
        results = []
        m_arg = mask3d if cfg["hasmask"] else None
        results.append(("apply_hard_constraints", om.apply_hard_constraints(raw.clone(), mask=None if m_arg is None else m_arg.clone())))
        if cfg["hasmask"]:
            om._obj = torch.nn.Parameter(raw.clone(), requires_grad=True)
            same = bool((mask3d == mask3d[:1]).all())
            om.mask = (mask3d[:1] if (same and idx % 3 == 0) else mask3d).clone()     # a 2-D style (1, h, w) mask where the slices agree
            results.append(("obj", om.obj.detach()))
        lo = np.array([b[0] for b in case["b"]], dtype=np.float64).reshape(shape) / UNIT
        hi = np.array([b[1] for b in case["b"]], dtype=np.float64).reshape(shape) / UNIT
        for name, res in results:
            res = res.detach()
            if tuple(res.shape) != tuple(shape):
                bad("C10:object:shape", f"{name}: result shape {tuple(res.shape)}")
                continue
            val = (res.abs() if ot != "potential" else res).numpy().astype(np.float64)
            if not np.all(np.isfinite(val)):
                bad("C10:object:nonfinite", f"{name}: non-finite values")
                continue
            below = val < lo - TOL
            above = val > hi + TOL
            if (below | above).any():
                e = int(np.argmax((below | above).reshape(-1)))
                what = "amplitude" if ot != "potential" else "value"
                bad(f"C10:object:{ot}:{'exact' if lo.reshape(-1)[e] == hi.reshape(-1)[e] else 'bound'}",
                    f"{name}: {what} {val.reshape(-1)[e]:.6f} of entry {e} outside the admissible interval "
                    f"[{lo.reshape(-1)[e]}, {hi.reshape(-1)[e] if hi.reshape(-1)[e] < INF / UNIT else 'inf'}]")
            if cfg["tie"] and ns > 1:
                if float((res - res[:1]).abs().max()) > TOL:
                    bad("C10:object:tie", f"{name}: slices differ by {float((res - res[:1]).abs().max()):.3g} with identical_slices")
            # amplitude idempotence where the model says the pipeline is exact
            if ot != "potential" and any(case["idem"]):
                again = om.apply_hard_constraints(res.clone(), mask=None if m_arg is None else m_arg.clone()).detach()
                d = (again.abs() - res.abs()).abs().numpy().reshape(-1)
                flags = np.array(case["idem"], dtype=bool)
                if (d[flags] > TOL).any():
                    bad("C10:object:idempotence", f"{name}: constraining the constrained object changes an amplitude by {d[flags].max():.3g}")
        if not torch.equal(raw, raw0):
            bad("C10:object:input-modified", "the raw parameter tensor was modified")
    except Exception as ex:  # noqa: BLE001
        bad("C10:object:raised", f"{type(ex).__name__}: {str(ex)[:200]}")
    return out


def run_tomo(arg):
    """Tomography object model: positivity clamps at zero (same bounds rule: [0, inf))."""
    vals, idx = arg
    warnings.filterwarnings("ignore")
    import torch
    out = []
    try:
        from quantem.tomography import object_models as tom
        v = torch.tensor(np.array(vals, dtype=np.float32).reshape(len(vals), 1, 1) / UNIT)
        obj = types.SimpleNamespace(hard_constraints={"fourier_filter": False, "positivity": True, "shrinkage": False,
                                                      "circular_mask": False})
        r = tom.ObjectConstraints.apply_hard_constraints(obj, v.clone())
        if float(r.min()) < -TOL:
            out.append(("C10:tomography:positivity", f"tomography case {idx}: value {float(r.min()):.4f} below zero under positivity"))
        if not torch.equal(torch.clamp(v, min=0), r):
            pass      # only non-negativity is claimed
    except Exception as ex:  # noqa: BLE001
        out.append(("C10:tomography:raised", f"{type(ex).__name__}: {str(ex)[:200]}"))
    return out


def run_probe(arg):
    case, idx = arg
    warnings.filterwarnings("ignore")
    import torch
    from quantem.diffractive_imaging.probe_models import ProbePixelated
    out = []
    k = case["k"]
    tag = f"probe case={idx} modes={case['modes']} unit={((1.0, 2.0 ** -22, 2.0 ** 11, 2.0 ** -10)[(idx // 3) % 4]):g}"

    def bad(key, msg):
        out.append((key, f"{tag}: {msg}"))
    try:
        # orthogonality, the order and the weight fractions do not depend on the unit of the probe amplitude: the same modes
        # are also handed over scaled by an exact power of two (mode energies around 1e-12 and 1e8)
        unit = (1.0, 2.0 ** -22, 2.0 ** 11, 2.0 ** -10)[(idx // 3) % 4]
        modes = (np.array([[complex(z[0], z[1]) for z in m] for m in case["modes"]], dtype=np.complex128) * unit).astype(np.complex64)
        shape = (2, 2) if idx % 2 == 0 else ((1, 4) if idx % 4 == 1 else (4, 1))
        arr = modes.reshape((k,) + shape)
        want = np.array(case["inten"], dtype=np.float64) * unit * unit
        pm = ProbePixelated.from_array(arr.copy(), initial_probe_weights=[float(x) for x in case["weights"]], rng=idx)
        t = torch.tensor(arr.copy())
        t0 = t.clone()
        results = [("_probe_orthogonalization_constraint", pm._probe_orthogonalization_constraint(t).detach())]
        pm.constraints = {"orthogonalize_probe": True}
        pm._probe = torch.nn.Parameter(torch.tensor(arr.copy()), requires_grad=True)
        results.append(("probe", pm.probe.detach()))
        if not torch.equal(t, t0):
            bad("C10:probe:input-modified", "the probe tensor handed to the orthogonalisation was modified")
        for name, q in results:
            if tuple(q.shape) != (k,) + shape:
                bad("C10:probe:shape", f"{name}: result shape {tuple(q.shape)}")
                continue
            qv = q.numpy().reshape(k, -1).astype(np.complex128)
            gram = qv.conj() @ qv.T
            inten = np.real(np.diag(gram))
            nrm = np.sqrt(np.outer(inten, inten)) + 1e-30
            off = np.abs(gram - np.diag(np.diag(gram))) / nrm
            if off.max() > 2e-4:
                a, c = np.unravel_index(int(np.argmax(off)), off.shape)
                bad("C10:probe:orthogonal", f"{name}: modes {a} and {c} have normalised overlap {off.max():.3g}")
            if np.any(np.diff(inten) > 1e-4 * want.max()):
                bad("C10:probe:descending", f"{name}: mode intensities {np.round(inten, 4)} are not in descending order")
            if np.abs(np.sort(inten)[::-1] - want).max() > 1e-4 * want.max():
                bad("C10:probe:intensities", f"{name}: mode intensities {np.round(np.sort(inten)[::-1], 4)}, the inputs carry {want}")
        # requested weights and mean diffraction intensity
        mscale = (1.0, 1e-12, 1e6)[(idx // 5) % 3]
        mean_i = float(case["mean"]) * mscale
        tgt = np.array([t_[0] / t_[1] for t_ in case["target"]], dtype=np.float64) * mscale
        pm2 = ProbePixelated.from_array(arr.copy(), initial_probe_weights=[float(x) for x in case["weights"]], rng=idx)
        pm2.set_initial_probe(shape, np.array([0.1, 0.1]), mean_i)
        pm3 = ProbePixelated.from_array(arr.copy(), initial_probe_weights=[float(x) for x in case["weights"]], rng=idx)
        pm3.mean_diffraction_intensity = mean_i
        for name, p in (("set_initial_probe", pm2.initial_probe.detach()), ("_apply_weights", pm3._apply_weights(torch.tensor(arr.copy())).detach())):
            f = torch.fft.fft2(p, norm="ortho")
            per = (f.abs().double() ** 2).sum(dim=(-2, -1)).numpy()
            if abs(per.sum() - mean_i) > 1e-4 * mean_i:
                bad("C10:probe:mean-intensity", f"{name}: total diffraction intensity {per.sum():.6g}, requested {mean_i}")
            if np.abs(per - tgt).max() > 1e-4 * mean_i:
                bad("C10:probe:weights", f"{name}: mode intensities {np.round(per, 5)}, requested {np.round(tgt, 5)}")
        if k > 1 and float((pm2._probe.detach() - pm2.initial_probe.detach()).abs().max()) != 0.0:
            bad("C10:probe:initial-differs", "the probe after set_initial_probe differs from initial_probe")
    except Exception as ex:  # noqa: BLE001
        bad("C10:probe:raised", f"{type(ex).__name__}: {str(ex)[:200]}")
    return out


def _gen(args):
    cfgname, consts, simulate, seed = args
    tmp = tempfile.mkdtemp(prefix="c10g_")
    try:
        g = tlc.cfg_variant(os.path.join(SPEC, cfgname), tmp, "gen.cfg", consts)
        kw = {}
        if simulate:
            kw = dict(simulate=simulate, depth=15, seed=seed)
        rg = tlc.run_tlc("Admissible", g, spec_dir=SPEC, workers=1, timeout=1500, **kw)
        if not simulate:
            tlc.expect_clean(rg, cfgname)
        return rg.cases
    finally:
        shutil.rmtree(tmp, ignore_errors=True)


def check(rep, tier, seed):
    quick = tier == "quick"
    rep.assume("PARTIAL (DESIGN.md section 5): amplitudes on the lattice {0, 1/2, 1, 2, 5} with assorted phases, masks in {0, 1/2, 1}, "
               "objects of 1-2 slices x 1-2 pixels; probe modes with small Gaussian-integer entries (1..4 modes, 4 pixels, pairwise "
               "correlation up to 0.99); arbitrary float tensors, smoothing filters and probe centring are not covered",
               "float32 results compared with exact values to 2e-6 (object) / 1e-4 relative (probe)",
               "where the property is silent (fractional mask values, baseline offset, amplitude after slice tying) the model's bounds are loose")
    tmp = tempfile.mkdtemp(prefix="c10_")
    try:
        for consts, what in (({"NS": 2, "NPX": 2}, "2 slices x 2 pixels"), ({"NS": 1, "NPX": 3}, "1 slice x 3 pixels")) if not quick \
                else (({"NS": 2, "NPX": 1}, "2 slices x 1 pixel"), ({"NS": 1, "NPX": 2}, "1 slice x 2 pixels")):
            c = tlc.cfg_variant(os.path.join(SPEC, "AdmObjMC.cfg"), tmp, "omc.cfg", consts)
            r = tlc.run_tlc("Admissible", c, spec_dir=SPEC, workers=16, timeout=3000)
            rep.add_tlc(r, f"Admissible (object, {what}): AdmissibleObject over every configuration, raw class and mask")
            tlc.expect_clean(r, "AdmObjMC")
        pruns = [({"K": 1, "Fam": 2}, "1 mode"), ({"K": 2, "Fam": 2}, "2 modes incl. nearly parallel")]
        if not quick:
            pruns.append(({"K": 3, "Fam": 1}, "3 modes"))
        for consts, what in pruns:
            c = tlc.cfg_variant(os.path.join(SPEC, "AdmProbeMC.cfg"), tmp, "pmc.cfg", consts)
            r = tlc.run_tlc("Admissible", c, spec_dir=SPEC, workers=16, timeout=3000)
            rep.add_tlc(r, f"Admissible (probe, {what}): OrthoSoFar, NoneLost, SortedDescending, SameMultiset")
            tlc.expect_clean(r, "AdmProbeMC")
        rn = tlc.run_tlc("Admissible", "AdmNEG_clamp.cfg", spec_dir=SPEC, workers=4, timeout=600)
        tlc.expect_violation(rn, "AdmNEG_clamp (complex amplitude not clamped)", "AdmissibleObject")
        rn = tlc.run_tlc("Admissible", "AdmNEG_conj.cfg", spec_dir=SPEC, workers=4, timeout=600)
        tlc.expect_violation(rn, "AdmNEG_conj (projection coefficient conjugated the wrong way)", "OrthoSoFar")
        rep.note("negative_controls", ["AdmNEG_clamp", "AdmNEG_conj"])
    finally:
        shutil.rmtree(tmp, ignore_errors=True)
    jobs = [("AdmObjGEN.cfg", {"NS": 2, "NPX": 1}, None, seed), ("AdmObjGEN.cfg", {"NS": 1, "NPX": 2}, None, seed),
            ("AdmProbeGEN.cfg", {"K": 1, "Fam": 2}, None, seed), ("AdmProbeGEN.cfg", {"K": 2, "Fam": 2}, None, seed),
            ("AdmProbeGEN.cfg", {"K": 3, "Fam": 1}, f"num={300 if quick else 3000}", seed),
            ("AdmProbeGEN.cfg", {"K": 4, "Fam": 1}, f"num={200 if quick else 2000}", seed + 1)]
    if not quick:
        jobs += [("AdmObjGEN.cfg", {"NS": 2, "NPX": 2}, "num=20000", seed), ("AdmObjGEN.cfg", {"NS": 1, "NPX": 3}, None, seed)]
    res = pmap(_gen, jobs, procs=len(jobs), chunk=1)
    ocases, pcases, seen = [], [], set()
    for cs in res:
        for c in cs:
            key = json.dumps(c, sort_keys=True)
            if key in seen:
                continue
            seen.add(key)
            (ocases if c["part"] == "object" else pcases).append(c)
    if not ocases or not pcases:
        raise MachineryError("no cases exported")
    if not any(c["k"] >= 3 for c in pcases):
        raise MachineryError("no 3-mode behaviours exported")
    rng = random.Random(seed)
    if quick:
        rng.shuffle(ocases)
        rng.shuffle(pcases)
        ocases, pcases = ocases[:3000], pcases[:1500]
    rep.note("cases", {"object": len(ocases), "probe": len(pcases)})
    rep.sample({"object_case": ocases[0], "probe_case": pcases[0]})
    ores = pmap(run_object, [(c, i) for i, c in enumerate(ocases)], procs=16, chunk=32)
    pres = pmap(run_probe, [(c, i) for i, c in enumerate(pcases)], procs=16, chunk=16)
    tres = pmap(run_tomo, [([-40, -10, 0, 10, 40][i % 5:] + [-40, -10, 0, 10, 40][:i % 5], i) for i in range(5)], procs=2, chunk=5)
    for cases, results, runner in ((ocases, ores, "object"), (pcases, pres, "probe"), ([{"tomo": i} for i in range(5)], tres, "tomo")):
        for ci, (c, probs) in enumerate(zip(cases, results)):
            rep.add_traces(1)
            rep.add_eval(1)
            rep.add_distinct(c)
            seen_k = set()
            for key, msg in probs:
                if key in seen_k:
                    continue
                seen_k.add(key)
                rep.mismatch(key, msg, {"case": c, "idx": ci, "runner": runner, "message": msg})
    rule = ("object: every sensible constraint configuration x raw amplitude class per entry x mask value per slice and pixel of Admissible.tla's "
            "object part (exhaustive for 2x1 and 1x2 objects; thorough adds 2x2 simulated and 1x3); probe: every ordered set of 1-2 "
            "distinct family vectors x scale x weight set x mean intensity (exhaustive), 3-4 modes by seeded simulation; distinct by case")
    return rule, False


def replay(path):
    body = json.load(open(path))
    r = body["replay"]
    fn = {"object": run_object, "probe": run_probe}.get(r.get("runner"))
    if fn is None:
        print("tomography cases are replayed by the check itself")
        return 0
    out = fn((r["case"], r.get("idx", 0)))
    for o in out:
        print(o)
    return 1 if out else 0
