"""Regenerates /verif/MANIFEST.json from the table below and validates it against the
schema.  Run:  /venv/bin/python -m harness.gen_manifest   (cwd=/verif)"""
from __future__ import annotations

import json
import os
import subprocess

VERIF = os.path.dirname(os.path.dirname(os.path.abspath(__file__)))

# property -> dict(text, note, technique, design_ref)   (only properties whose check exists)
CLAIMED: dict = {}

NOT_APPLICABLE = {
}

# properties whose check is not built yet (kept current as the work proceeds)
PENDING = {
    "C01": "check not built yet", "C02": "check not built yet", "C03": "check not built yet",
    "C04": "check not built yet", "C05": "check not built yet", "C06": "check not built yet",
    "C07": "core claim (agreement with scikit-image floats) not applicable to a TLA+ model; exact "
           "sub-claims not built yet; see DESIGN.md section 5",
    "C08": "check not built yet", "C09": "check not built yet", "C11": "check not built yet",
    "C13": "check not built yet", "C14": "check not built yet", "C15": "check not built yet",
    "C16": "check not built yet", "C17": "check not built yet", "C18": "check not built yet",
    "C19": "check not built yet",
    "C20": "core claim (real-valued monotone maps) not applicable to a TLA+ model; ordinal "
           "sub-model not built yet; see DESIGN.md section 5",
}


def hook_commits():
    try:
        out = subprocess.run(["git", "-C", "/repo", "log", "--format=%H %s"], capture_output=True,
                             text=True).stdout
        return [l.split()[0] for l in out.splitlines() if " verif-hook:" in l]
    except Exception:
        return []


def build():
    try:
        from harness.manifest_table import CLAIMED as T
    except ImportError:
        T = CLAIMED
    checks = []
    for pid in sorted(T):
        c = T[pid]
        checks.append({
            "property_id": pid,
            "quick_cmd": f"./check {pid} --tier quick",
            "thorough_cmd": f"./check {pid} --tier thorough",
            "evidence_file": f"/verif/evidence/{pid}.json",
            "replay_cmd_template": f"./check {pid} --replay {{path}}",
            "engine": "tlc-conformance",
            "level_claimed": {"category": c.get("category", "model_checking"),
                              "text": c["text"], "design_ref": c["design_ref"]},
            "level_note": c["note"],
            "technique": c["technique"],
        })
    na = []
    for pid in sorted(set(NOT_APPLICABLE) | set(PENDING)):
        if pid in T:
            continue
        na.append({"property_id": pid, "reason": NOT_APPLICABLE.get(pid) or PENDING[pid]})
    m = {
        "version": 1,
        "setup_cmd": "./setup.sh",
        "hooks": {
            "guard": "QUANTEM_VERIF",
            "enable": "environment variable QUANTEM_VERIF=1 (exported by ./check); quantem is an "
                      "editable install of /repo in /venv, so no build step is needed",
            "baseline_off_cmd": "cd /repo && env -u QUANTEM_VERIF /venv/bin/python -m pytest -ra -q "
                                "-p no:cacheprovider --timeout=900 --continue-on-collection-errors",
            "source_commits": hook_commits(),
            "add_only": True,
        },
        "engines": [{
            "name": "tlc-conformance",
            "path": "/verif/check",
            "serves_properties": sorted(T),
            "kind_free_text": "explicit TLA+ specifications (specs/) model-checked with TLC; "
                              "bound to the implementation by replaying TLC-generated behaviours "
                              "into quantem (S->C) and by validating traces recorded from quantem "
                              "against *Trace.tla modules with TLC (C->S)",
        }],
        "checks": checks,
        "notes": "See DESIGN.md. Exit codes: 0 held (KNOWN-FINDING lines possible), 1 VIOLATION, "
                 "2 machinery failure. Known findings: findings/known_findings.json. Extra model beyond the listed "
                 "properties (nothing claimed): ./check X01 (VirtualImages.tla, Dataset4dstem virtual-image registry), "
                 "./check X02 (TiltSeriesState.tla, TomographyDataset parameter arrays).",
        "not_applicable": na,
    }
    return m


def main():
    m = build()
    import jsonschema
    with open("/root/.vp/MANIFEST.schema.json") as f:
        jsonschema.validate(m, json.load(f))
    with open(os.path.join(VERIF, "MANIFEST.json"), "w") as f:
        json.dump(m, f, indent=1)
        f.write("\n")
    print("MANIFEST.json written:", len(m["checks"]), "checks,", len(m["not_applicable"]), "n/a")


if __name__ == "__main__":
    main()
