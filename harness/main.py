"""CLI entry: python -m harness.main Cxx [--tier quick|thorough] [--replay file]."""
from __future__ import annotations

import argparse
import importlib
import os
import sys

from harness.common.report import run_check


def main():
    ap = argparse.ArgumentParser()
    ap.add_argument("pid")
    ap.add_argument("--tier", default=os.environ.get("VERIF_TIER", "quick"),
                    choices=["quick", "thorough"])
    ap.add_argument("--replay", default=None)
    a = ap.parse_args()
    seed = int(os.environ.get("VERIF_SEED", "0") or 0)
    pid = a.pid.upper()
    try:
        mod = importlib.import_module(f"harness.{pid.lower()}")
    except ModuleNotFoundError as e:
        print(f"no check for {pid}: {e}", file=sys.stderr)
        sys.exit(2)
    if a.replay:
        sys.exit(mod.replay(a.replay))
    run_check(pid, lambda rep: mod.check(rep, a.tier, seed), a.tier, seed)


if __name__ == "__main__":
    main()
