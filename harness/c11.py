"""C11 — ragged Vector.  VectorHeap.tla / VectorMC.tla / VectorTrace.tla.

TLC checks CellsWellFormed, Schema, NoSharing, FlattenRoundTrip and SliceAddresses over all
operation histories of the bounded heap model and rejects three wrong variants.  TLC then
generates operation scripts (exhaustive to depth 3 / simulated longer walks); the driver
executes them on real Vectors, recording after each call the canonical projection of the
heap (object identities mapped to small ids) plus read results, and TLC validates the
recorded executions against the specification (share-vs-copy left to TLC).
"""
from __future__ import annotations

import json
import os
import random
import shutil
import tempfile

import numpy as np

from harness.common import tlc
from harness.common.par import pmap
from harness.common.tlc import MachineryError

SPEC = os.path.join(tlc.SPECS, "vector")
FIELD_NAMES = ["fa", "fb", "fc", "fd"]
UNSET = [[-1]]


def py_index(ix, as_array=False):
    t = ix["t"]
    if t == "int":
        return int(ix["a"])
    if t == "slice":
        return slice(int(ix["a"]), int(ix["b"]), int(ix["c"]))
    if t == "list":
        return np.array(ix["l"]) if as_array else [int(x) for x in ix["l"]]
    return slice(None)


def arr_of(rows, nf):
    return np.array(rows, dtype=float).reshape(len(rows), nf)


def rows_of(a):
    a = np.asarray(a)
    r = np.rint(a)
    if a.ndim != 2 or not np.allclose(a, r):
        raise ValueError(f"cell is not an integral 2-D array: shape {a.shape}")
    return r.astype(int).tolist()


class Driver:
    def __init__(self, rng):
        self.rng = rng
        self.vecs = []

    # ---- projection -------------------------------------------------------
    def project(self):
        ids, arrays, dids, dicts, out = {}, [], {}, [], []
        for v in self.vecs:
            cells = []

            def walk(d, depth, nd):
                if depth == nd:
                    if d is None:
                        cells.append(0)
                    else:
                        if not isinstance(d, np.ndarray):
                            raise ValueError(f"cell holds {type(d).__name__}")
                        if id(d) not in ids:
                            ids[id(d)] = len(arrays) + 1
                            arrays.append({"nc": int(d.shape[1]) if d.ndim == 2 else -1,
                                           "rows": rows_of(d)})
                        cells.append(ids[id(d)])
                else:
                    if not isinstance(d, list):
                        raise ValueError("data is not a nested list of the vector's dimensionality")
                    for x in d:
                        walk(x, depth + 1, nd)
            walk(v.data, 0, len(v.shape))
            md = v.metadata
            if id(md) not in dids:
                dids[id(md)] = len(dicts) + 1
                dicts.append(sorted(str(k) for k in md))
            out.append({"shape": [int(s) for s in v.shape], "fields": list(v.fields),
                        "units": list(v.units), "cells": cells, "meta": dids[id(md)]})
        return {"arrays": arrays, "dicts": dicts, "vecs": out}

    # ---- actions ----------------------------------------------------------
    def step(self, e):
        from quantem.core.datastructures.vector import Vector
        op = e["op"]
        v = self.vecs[e["v"] - 1] if e["v"] else None
        if op == "from_shape":
            nf = e["n1"]
            kw = {"fields": FIELD_NAMES[:nf]} if self.rng.random() < 0.7 else \
                {"fields": FIELD_NAMES[:nf], "num_fields": nf}
            self.vecs.append(Vector.from_shape(shape=tuple(e["shape"]), **kw))
        elif op == "from_data":
            nf = e["n1"]
            self.vecs.append(Vector.from_data([arr_of(r, nf) for r in e["rows"]],
                                              fields=FIELD_NAMES[:nf]))
        elif op == "set":
            nf = len(v.fields)
            vals = [arr_of(r, nf) for r in e["rows"]]
            idx = list(e["idx"]) + [{"t": "all"}] * (len(v.shape) - len(e["idx"]))
            single = all(i["t"] == "int" for i in idx)
            if single:
                tup = tuple(py_index(i) for i in idx)
                if self.rng.random() < 0.5:
                    v[tup if len(tup) > 1 else tup[0]] = vals[0]
                else:
                    v.set_data(vals[0], *tup)
            else:
                first_only = all(i["t"] == "int" for i in idx[1:])
                as_arr = self.rng.random() < 0.3
                tup = tuple(py_index(i, as_arr) for i in idx)
                # set_data treats a selection of exactly one cell as single-cell assignment
                # (value must then be an array): use its list form only for >1 cells
                i0 = idx[0]
                n0 = (len(range(*slice(i0["a"], i0["b"], i0["c"]).indices(v.shape[0]))) if i0["t"] == "slice"
                      else len(i0["l"]) if i0["t"] == "list" else v.shape[0] if i0["t"] == "all" else 1)
                if first_only and n0 > 1 and self.rng.random() < 0.4:
                    v.set_data(vals, *tup)
                else:
                    v[tup if len(tup) > 1 else tup[0]] = vals
        elif op in ("add", "mul"):
            f = v.fields[e["n1"] - 1]
            fv = v[f]
            if op == "add":
                if self.rng.random() < 0.5:
                    fv += e["n2"]
                else:
                    v[f] += e["n2"]
            else:
                fv *= e["n2"]
        elif op == "set_flattened":
            f = v.fields[e["n1"] - 1]
            vals = np.array(e["rows"][0], dtype=float)
            if self.rng.random() < 0.5:
                v[f].set_flattened(vals)
            else:
                v[f] = vals
        elif op == "add_fields":
            names = list(e["shape"])
            if v.fields and self.rng.random() < 0.6:
                # a refused request first (the model's AddFields is enabled for new, pairwise different names only): a
                # list that mixes an existing name with a new one must be rejected as a whole and change nothing
                try:
                    v.add_fields([names[0], v.fields[-1]] if self.rng.random() < 0.5 else [v.fields[0], names[0]])
                except ValueError:
                    pass
                else:
                    raise RuntimeError("add_fields accepted a list that contains an existing field name")
            v.add_fields(names[0] if len(names) == 1 and self.rng.random() < 0.5 else names)
        elif op == "remove_fields":
            f = v.fields[e["n1"] - 1]
            v.remove_fields(f if self.rng.random() < 0.5 else [f])
        elif op == "copy":
            self.vecs.append(v.copy())
        elif op == "slice":
            tup = tuple(py_index(i, self.rng.random() < 0.3) for i in e["idx"])
            res = v[tup if len(tup) > 1 else tup[0]]
            if not isinstance(res, Vector):
                raise TypeError(f"slicing returned {type(res).__name__}, expected Vector")
            self.vecs.append(res)
        elif op == "meta_put":
            v.metadata["k1"] = 1
        else:
            raise MachineryError(f"unknown op {op}")

    def reads(self):
        """A few read events on a random live vector (results only; state must not change)."""
        evs = []
        if not self.vecs:
            return evs
        vi = self.rng.randrange(len(self.vecs))
        v = self.vecs[vi]
        nd = len(v.shape)

        def content(a):
            return UNSET if a is None else rows_of(a)

        def base(op, **kw):
            e = {"op": op, "v": vi + 1, "idx": [], "rows": [], "n1": 0, "n2": 0, "shape": [],
                 "raised": False, "obs": {"arrays": [], "dicts": [], "vecs": []}, "res": []}
            e.update(kw)
            return e
        # single cell, both forms
        tup = tuple(self.rng.randrange(s) for s in v.shape)
        idx = [{"t": "int", "a": int(i), "b": 0, "c": 1, "l": []} for i in tup]
        try:
            a = v[tup if nd > 1 else tup[0]] if self.rng.random() < 0.5 else v.get_data(*tup)
            evs.append(base("get", idx=idx, res=[content(a)]))
        except Exception as ex:  # noqa: BLE001
            evs.append(base("get", idx=idx, raised=True, err=f"{type(ex).__name__}: {ex}"[:120]))
        # fancy get_data over a slice of the first axis
        idx2 = [{"t": "slice", "a": 0, "b": int(v.shape[0]), "c": 1, "l": []}] + idx[1:]
        try:
            res = v.get_data(slice(0, v.shape[0], 1), *tup[1:])
            if isinstance(res, np.ndarray) or res is None:
                res = [res]
            evs.append(base("get", idx=idx2, res=[content(a) for a in res]))
        except Exception as ex:  # noqa: BLE001
            evs.append(base("get", idx=idx2, raised=True, err=f"{type(ex).__name__}: {ex}"[:120]))
        col = self.rng.randrange(len(v.fields))
        try:
            fl = v[v.fields[col]].flatten()
            r = np.rint(fl)
            if fl.ndim != 1 or not np.allclose(fl, r):
                raise ValueError("field flatten is not an integral 1-D array")
            evs.append(base("flatcol", n1=col + 1, res=[r.astype(int).tolist()]))
            fa = v.flatten()
            evs.append(base("flatall", res=rows_of(fa) if fa.shape[0] else []))
        except Exception as ex:  # noqa: BLE001
            evs.append(base("flatcol", n1=col + 1, raised=True, err=f"{type(ex).__name__}: {ex}"[:120]))
        return evs


def run_script(arg):
    script, seed = arg
    d = Driver(random.Random(seed))
    trace = []
    for e in script:
        ev = {"op": e["op"], "v": e["v"], "idx": e["idx"], "rows": e["rows"], "n1": e["n1"],
              "n2": e["n2"], "shape": e.get("shape", []), "raised": False, "res": []}
        try:
            d.step(e)
        except MachineryError:
            raise
        except Exception as ex:  # noqa: BLE001
            ev["raised"] = True
            ev["err"] = f"{type(ex).__name__}: {ex}"[:160]
        try:
            ev["obs"] = d.project()
        except Exception as ex:  # noqa: BLE001
            ev["raised"] = True
            ev["err"] = f"projection failed: {type(ex).__name__}: {ex}"[:160]
            ev["obs"] = {"arrays": [], "dicts": [], "vecs": []}
        trace.append(ev)
        if ev["raised"]:
            break
        trace.extend(d.reads())
    return trace


def finding_key(ev, script):
    op = ev["op"]
    err = ev.get("err", "")
    nd = None
    if op in ("slice", "get"):
        # dimensionality of the vector addressed, from the script's from_shape
        pass
    if ev["raised"]:
        return f"C11:{op}:raised:{err.split(':')[0]}"
    return f"C11:{op}:state"


def validate(rep, traces, scripts, label):
    CH = 1200
    for a in range(0, len(traces), CH):
        chunk = traces[a:a + CH]
        r, prog = tlc.validate_traces("VectorTrace", "VectorTrace.cfg", SPEC, chunk, timeout=3000)
        rep.add_tlc(r, f"trace-validation {label} chunk{a // CH}")
        if len(prog) != len(chunk):
            raise MachineryError(f"progress vector {len(prog)} != {len(chunk)}\n{r.stdout[-2000:]}")
        for i, (t, p) in enumerate(zip(chunk, prog)):
            rep.add_traces(1)
            rep.add_eval(len(t))
            if p != len(t) + 1:
                k = max(p, 1) - 1
                ev = t[k]
                shapes = [e["shape"] for e in t[:k + 1] if e["op"] == "from_shape"]
                key = finding_key(ev, scripts[a + i])
                rep.mismatch(key, f"trace rejected by VectorTrace at event {k + 1}/{len(t)}: op={ev['op']} "
                                  f"v={ev['v']} idx={json.dumps(ev['idx'])[:120]} err={ev.get('err')} "
                                  f"(shapes so far {shapes})",
                             {"trace": t, "script": scripts[a + i], "first_unmatched_event": k + 1})


def self_test(rep, trace):
    bad = json.loads(json.dumps(trace))
    ks = [i for i, e in enumerate(bad) if e["op"] == "flatcol" and not e["raised"] and e["res"] and e["res"][0]]
    if not ks:
        return
    k = ks[-1]
    bad[k]["res"][0][0] += 1
    r, prog = tlc.validate_traces("VectorTrace", "VectorTrace.cfg", SPEC, [trace, bad])
    if prog[0] != len(trace) + 1 or prog[1] != k + 1:
        raise MachineryError(f"binding self-test failed: progress {prog}, corrupted event {k + 1}")
    rep.note("binding_self_test", "a corrupted flatten result is rejected at that event")


def check(rep, tier, seed):
    quick = tier == "quick"
    rep.assume("assignments use full index tuples, non-negative indices, fresh arrays, and fancy "
               "lists without repeated indices", "set_data with several arrays is exercised only "
               "with the non-integer index on the first axis (its documented use)",
               "whether a slice shares or copies the addressed arrays, and whether a copy keeps "
               "metadata keys, is left open by the specification")
    tmp = tempfile.mkdtemp(prefix="c11_")
    try:
        c = tlc.cfg_variant(os.path.join(SPEC, "VectorMC.cfg"), tmp, "mc.cfg",
                            {"MaxLen": 3 if quick else 4})
        r = tlc.run_tlc("VectorMC", c, spec_dir=SPEC, workers=16, timeout=3000)
        rep.add_tlc(r, "VectorHeap design properties")
        tlc.expect_clean(r, "VectorMC")
        for neg, prop in (("meta", "InvNoSharing"), ("slice2d", "SliceAddresses"), ("addshare", "InvCells")):
            rn = tlc.run_tlc("VectorMC", f"VectorNEG_{neg}.cfg", spec_dir=SPEC, workers=1, timeout=900)
            tlc.expect_violation(rn, f"VectorNEG_{neg}", prop)
        rep.note("negative_controls", ["VectorNEG_meta", "VectorNEG_slice2d", "VectorNEG_addshare"])
        g = tlc.cfg_variant(os.path.join(SPEC, "VectorGEN.cfg"), tmp, "gen.cfg", {"MaxLen": 3})
        rg = tlc.run_tlc("VectorMC", g, spec_dir=SPEC, workers=1, timeout=3000)
        tlc.expect_clean(rg, "VectorGEN")
        scripts = rg.cases
        total = len(scripts)
        if quick:
            random.Random(seed).shuffle(scripts)
            scripts = scripts[:1500]
        nsim = 60 if quick else 600
        s = tlc.cfg_variant(os.path.join(SPEC, "VectorGEN.cfg"), tmp, "sim.cfg",
                            {"MaxLen": 10, "Rich": "TRUE", "MaxVecs": 4}, drop_prefixes=("CONSTRAINT",))
        rs = tlc.run_tlc("VectorMC", s, spec_dir=SPEC, workers=1, timeout=1500,
                         simulate=f"num={nsim}", depth=11, seed=seed + 5)
        walks = rs.cases
        if len(walks) < nsim // 2:
            raise MachineryError(f"simulation produced only {len(walks)} walks\n{rs.stdout[-1500:]}")
        rep.note("scripts", {"exhaustive_depth3": total, "replayed": len(scripts),
                             "simulated_walks_len10": len(walks)})
    finally:
        shutil.rmtree(tmp, ignore_errors=True)
    allscripts = scripts + walks
    traces = pmap(run_script, [(sc, seed * 7919 + i) for i, sc in enumerate(allscripts)], procs=16,
                  chunk=64)
    for sc in allscripts:
        rep.add_distinct([(e["op"], e["v"], e["idx"], e.get("shape")) for e in sc])
    rep.sample({"script": allscripts[0], "first_recorded_event": traces[0][0]})
    validate(rep, traces, allscripts, "vector")
    if rep.violations == 0 and not rep.known_hits:
        self_test(rep, next(t for t in traces if any(e["op"] == "flatcol" and e["res"] and e["res"][0] for e in t)))
    rule = ("scripts generated by TLC from VectorMC (exhaustive to depth 3 over the operation "
            "alphabet on shapes (2),(2,2),(2,2,2); simulated 10-step walks with (3),(3,2) added); "
            "each executed on real Vectors with read-backs after every call; traces validated by "
            "TLC; distinct by operation sequence with arguments")
    return rule, False


def replay(path):
    body = json.load(open(path))
    rp = body["replay"]
    t = run_script((rp["script"], 1))
    r, prog = tlc.validate_traces("VectorTrace", "VectorTrace.cfg", SPEC, [t])
    print("progress", prog, "of", len(t) + 1)
    k = max(prog[0], 1) - 1
    if k < len(t):
        print("first unmatched event:", json.dumps(t[k])[:1500])
    return 0 if prog[0] == len(t) + 1 else 1
