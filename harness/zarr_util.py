"""zarr runs its I/O on a background event-loop thread; when one write of a gathered batch
raises, the sibling writes keep running after save() has returned.  quiesce() waits until
every task on that loop has finished, so that the file system is inspected in a stable state."""
from __future__ import annotations

import asyncio


def reset_after_fork():
    import zarr.core.sync as zs
    th = zs.iothread[0] if hasattr(zs, "iothread") else None
    if zs.loop[0] is not None and (th is None or not th.is_alive()):
        zs.loop[0] = None
        if hasattr(zs, "iothread"):
            zs.iothread[0] = None


def quiesce(timeout: float = 10.0):
    import zarr.core.sync as zs
    loop = zs.loop[0]
    if loop is None or not loop.is_running():
        return

    async def _wait_all():
        for _ in range(50):
            tasks = [t for t in asyncio.all_tasks() if t is not asyncio.current_task()]
            if not tasks:
                return
            await asyncio.gather(*tasks, return_exceptions=True)

    asyncio.run_coroutine_threadsafe(_wait_all(), loop).result(timeout)
