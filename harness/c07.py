"""C07 — torch Radon / filtered back-projection.  RadonRight.tla (S->C on the exact sub-domain).

What the model decides: at projection angles 0 / 90 / 180 degrees the transform is integer arithmetic; TLC
computes the exact sinograms and unfiltered back-projections of small images (N = 3..7) in scikit-image's
conventions, checks ZeroDegColumnSums, MassKept, Adjoint and AngleOnly, and rejects the pinned tree's mirrored
sampling grid.  Every exported behaviour is replayed into radon_torch / iradon_torch (single, batched, sum of two
images): sinograms and reconstructions must be the model's integers (times pi/2A).

What the model does NOT decide (oblique angles, the Fourier filters) is compared directly with the reference the
property names - skimage.transform.radon / iradon / _get_fourier_filter - at enumerated configurations, and
linearity / batch = per-image are checked relationally there.  This part is a differential comparison, recorded
as such in the evidence.
"""
from __future__ import annotations

import json
import os
import random
import shutil
import tempfile
import warnings

import numpy as np

from harness.common import tlc
from harness.common.par import pmap
from harness.common.tlc import MachineryError

SPEC = os.path.join(tlc.SPECS, "radon")
FILTERS = ("ramp", "shepp-logan", "cosine", "hamming", "hann", None)


def run_case(arg):
    case, idx = arg
    warnings.filterwarnings("ignore")
    import torch
    from quantem.tomography.radon.radon import iradon_torch, radon_torch
    out = []
    n = case["n"]
    ang = [float(a) for a in case["angles"]]
    img = np.array(case["img"], dtype=np.float64)
    img2 = np.array(case["img2"], dtype=np.float64)
    sino = np.array(case["sino"], dtype=np.float64)          # (A, N), of the disc-masked image
    sino2 = np.array(case["sino2"], dtype=np.float64)
    bp = np.array(case["bp"], dtype=np.float64) * np.pi / (2 * len(ang))
    # both transforms are linear: the same image / sinogram is also handed over in another unit (an exact power of two) and the
    # result brought back
    u = (1.0, 2.0 ** -20, 2.0 ** 16)[(idx // 3) % 3]
    tag = f"N={n} angles={case['angles']} unit={u:g} case={idx}"
    th = torch.tensor(ang, dtype=torch.float32)
    tol = 2e-5 * max(1.0, float(np.abs(sino).max()) * n)

    def bad(key, msg):
        out.append((key, f"{tag}: {msg}"))
    try:
        for dt in (torch.float32,):      # (float64 images are rejected by grid_sample against the float32 grid; dtypes are not in the claim)
            x = torch.tensor(img * u, dtype=dt)
            x0 = x.clone()
            s = radon_torch(x, theta=th).detach().cpu().numpy().astype(np.float64).reshape(len(ang), n) / u
            if not torch.equal(x, x0):
                bad("C07:inputs-modified", "radon_torch modified its input image")
            if np.abs(s - sino).max() > tol:
                k = int(np.argmax(np.abs(s - sino).max(axis=1)))
                key = "C07:radon:zero-degrees" if ang[k] == 0 else "C07:radon:right-angle"
                bad(f"{key}:{'even' if n % 2 == 0 else 'odd'}", f"projection at {ang[k]} degrees is {s[k].round(4).tolist()}, exact "
                    f"{sino[k].tolist()}" + (" (= column sums of the disc-masked image)" if ang[k] == 0 else ""))
                break
            # batched call = per-image calls; linear: third image is the sum of the first two
            batch = torch.tensor(np.stack([img, img2, img + img2]) * u, dtype=dt)
            sb = radon_torch(batch, theta=th).detach().cpu().numpy().astype(np.float64).reshape(3, len(ang), n) / u
            if np.abs(sb[0] - s).max() > 1e-6 * max(1.0, np.abs(s).max()):
                bad("C07:radon:batch", "batched call differs from the single-image call")
            if np.abs(sb[1] - sino2).max() > tol:
                bad("C07:radon:batch", "second image of a batch differs from its exact sinogram")
            if np.abs(sb[2] - (sino + sino2)).max() > 2 * tol:
                bad("C07:radon:linear", "radon(x + y) != radon(x) + radon(y)")
            # unfiltered back-projection of the exact sinogram
            y = torch.tensor(sino * u, dtype=dt)
            y0 = y.clone()
            r = iradon_torch(y, theta=th, filter_name=None).detach().cpu().numpy().astype(np.float64) / u
            if not torch.equal(y, y0):
                bad("C07:inputs-modified", "iradon_torch modified its input sinogram")
            if not torch.equal(th, torch.tensor(ang, dtype=torch.float32)):
                bad("C07:inputs-modified", "the caller's angle tensor was modified")
                th = torch.tensor(ang, dtype=torch.float32)
            rt = 2e-5 * max(1.0, float(np.abs(bp).max()))
            if r.shape != bp.shape or np.abs(r - bp).max() > rt:
                bad(f"C07:iradon:unfiltered:{'even' if n % 2 == 0 else 'odd'}", f"unfiltered back-projection deviates from the exact one by "
                    f"{np.abs(r - bp).max() if r.shape == bp.shape else 'shape ' + str(r.shape):.4g}" if r.shape == bp.shape else
                    f"shape {r.shape} != {bp.shape}")
                break
            yb = torch.tensor(np.stack([sino, sino2, sino + sino2]) * u, dtype=dt)
            rb = iradon_torch(yb, theta=th, filter_name=None).detach().cpu().numpy().astype(np.float64) / u
            if np.abs(rb[0] - r).max() > 1e-6 * max(1.0, np.abs(r).max()):
                bad("C07:iradon:batch", "batched back-projection differs from the single call")
            r2 = iradon_torch(torch.tensor(sino2 * u, dtype=dt), theta=th, filter_name=None).detach().cpu().numpy().astype(np.float64) / u
            if np.abs(rb[2] - (r + r2)).max() > 4 * rt:
                bad("C07:iradon:linear", "iradon(x + y) != iradon(x) + iradon(y)")
    except Exception as ex:  # noqa: BLE001
        bad("C07:raised", f"{type(ex).__name__}: {str(ex)[:200]}")
    return out


def angle_sets(n, rng):
    sets = [np.array([0.0]), np.array([0.0, 90.0, 180.0]), np.linspace(0, 180, n, endpoint=False),
            np.array([10.0, 33.3, 70.0, 120.0, 179.0]), np.sort(rng.uniform(0, 180, size=7)),
            rng.uniform(0, 180, size=4), np.array([45.0, 45.0, 135.0]), np.linspace(0, 180, 2 * n + 1)]
    return sets


def images(n, rng):
    yy, xx = np.mgrid[:n, :n]
    smooth = np.exp(-((yy - n / 2 - 0.7) ** 2 + (xx - n / 2 + 1.1) ** 2) / (2 * (n / 5 + 0.5) ** 2))
    rough = rng.integers(0, 9, size=(n, n)).astype(float)
    delta = np.zeros((n, n))
    delta[n // 2 - (1 if n > 2 else 0), n // 2] = 5.0
    return {"smooth": smooth, "non-smooth": rough, "single-pixel": delta}


def differential(arg):
    """size n: radon / iradon against scikit-image for angle sets, images, filters; linearity; batching."""
    n, seed = arg
    warnings.filterwarnings("ignore")
    import torch
    from skimage.transform import iradon, radon
    from quantem.tomography.radon.radon import iradon_torch, radon_torch
    out = []
    neval = 0
    rng = np.random.default_rng(1000 * seed + n)
    c = n // 2
    yy, xx = np.mgrid[:n, :n]
    disc = (xx - c) ** 2 + (yy - c) ** 2 <= c ** 2
    par = "even" if n % 2 == 0 else "odd"
    try:
        ims = images(n, rng)
        for ai, th in enumerate(angle_sets(n, rng)):
            tht = torch.tensor(th, dtype=torch.float32)
            sinos = {}
            tht0 = tht.clone()
            for name, im in ims.items():
                ref = radon(im * disc, theta=th, circle=True)                    # (N, A)
                got = radon_torch(torch.tensor(im, dtype=torch.float32), theta=tht).numpy().reshape(len(th), n).T
                neval += 1
                sinos[name] = ref
                if np.abs(got - ref).max() > 3e-4 * max(1.0, np.abs(ref).max()):
                    out.append((f"C07:radon:skimage:{par}", f"N={n} angles#{ai} {name}: sinogram differs from skimage.transform.radon "
                                f"by {np.abs(got - ref).max():.4g} (max {np.abs(ref).max():.4g})"))
                    break
            stack = torch.tensor(np.stack([ims["smooth"], ims["non-smooth"], 2.5 * ims["smooth"] - ims["non-smooth"]]), dtype=torch.float32)
            sb = radon_torch(stack, theta=tht).numpy().reshape(3, len(th), n)
            s0 = radon_torch(stack[0], theta=tht).numpy().reshape(len(th), n)
            s1 = radon_torch(stack[1], theta=tht).numpy().reshape(len(th), n)
            scale = max(1.0, float(np.abs(sb).max()))
            if max(np.abs(sb[0] - s0).max(), np.abs(sb[1] - s1).max()) > 1e-5 * scale:
                out.append(("C07:radon:batch", f"N={n} angles#{ai}: batched call differs from per-image calls"))
            if np.abs(sb[2] - (2.5 * s0 - s1)).max() > 1e-4 * scale:
                out.append(("C07:radon:linear", f"N={n} angles#{ai}: radon(2.5 x - y) != 2.5 radon(x) - radon(y)"))
            # filtered back-projection of a generic sinogram (not necessarily a Radon image)
            sg = rng.normal(size=(n, len(th)))
            for fname in FILTERS:
                refr = iradon(sg, theta=th, filter_name=fname, circle=True)
                gotr = iradon_torch(torch.tensor(sg.T.copy(), dtype=torch.float32), theta=tht, filter_name=fname).numpy()
                neval += 1
                if gotr.shape != refr.shape or np.abs(gotr - refr).max() > 3e-4 * max(1.0, np.abs(refr).max()):
                    out.append((f"C07:iradon:skimage:{fname}:{par}", f"N={n} angles#{ai} filter={fname}: reconstruction differs from "
                                f"skimage.transform.iradon by {np.abs(gotr - refr).max() if gotr.shape == refr.shape else gotr.shape}"))
            fname = FILTERS[(ai + n) % len(FILTERS)]
            sg2 = rng.normal(size=(n, len(th)))
            yb = torch.tensor(np.stack([sg.T, sg2.T, (sg - 0.5 * sg2).T]), dtype=torch.float32)
            rb = iradon_torch(yb, theta=tht, filter_name=fname).numpy()
            r0 = iradon_torch(yb[0], theta=tht, filter_name=fname).numpy()
            r1 = iradon_torch(yb[1], theta=tht, filter_name=fname).numpy()
            scale = max(1.0, float(np.abs(rb).max()))
            if max(np.abs(rb[0] - r0).max(), np.abs(rb[1] - r1).max()) > 1e-5 * scale:
                out.append(("C07:iradon:batch", f"N={n} angles#{ai} filter={fname}: batched call differs from per-image calls"))
            if np.abs(rb[2] - (r0 - 0.5 * r1)).max() > 1e-4 * scale:
                out.append(("C07:iradon:linear", f"N={n} angles#{ai} filter={fname}: iradon is not linear"))
            if not torch.equal(tht, tht0):
                out.append(("C07:inputs-modified", f"N={n} angles#{ai}: the caller's angle tensor was modified"))
                tht = tht0.clone()
            # circle=False and explicit output sizes
            # (circle=False and output grids larger than the sinogram are compared at oblique angles only: at right
            # angles grid points fall EXACTLY on the last sinogram sample and whether they count as inside depends on
            # the sign of cos(90 deg) = 6e-17 (float64 reference) / -4e-8 (float32 port) - ill-conditioned in the reference)
            if ai in (1, 3):
                for circle, osz in ((True, n - 1),) + (((False, None), (False, n + 2), (True, n + 2)) if ai == 3 else ()):
                    # generic angles (no cosine is a multiple of 1/2), see the note above
                    tho = np.array([10.3, 33.3, 70.9, 121.7, 178.1])[: len(th)] if ai == 3 else th
                    refr = iradon(sg[:, : len(tho)], theta=tho, filter_name="hann", circle=circle, output_size=osz)
                    gotr = iradon_torch(torch.tensor(sg[:, : len(tho)].T.copy(), dtype=torch.float32),
                                        theta=torch.tensor(tho, dtype=torch.float32), filter_name="hann",
                                        circle=circle, output_size=osz).numpy()
                    neval += 1
                    if gotr.shape != refr.shape or np.abs(gotr - refr).max() > 3e-4 * max(1.0, np.abs(refr).max()):
                        out.append((f"C07:iradon:skimage:options:{par}", f"N={n} circle={circle} output_size={osz}: differs from skimage"))
    except Exception as ex:  # noqa: BLE001
        out.append(("C07:raised", f"N={n}: {type(ex).__name__}: {str(ex)[:200]}"))
    return out, neval


def filters_vs_reference():
    from skimage.transform.radon_transform import _get_fourier_filter
    from quantem.tomography.radon.radon import get_fourier_filter_torch
    out = []
    n = 0
    for size in (64, 128, 256, 512, 66, 100, 1024):
        for name in FILTERS:
            ref = _get_fourier_filter(size, name)[:, 0]
            got = get_fourier_filter_torch(size, name).numpy().reshape(-1)
            n += 1
            if got.shape != ref.shape or np.abs(got - ref).max() > 2e-6 * max(1.0, np.abs(ref).max()):
                out.append((f"C07:filter:{name}", f"size {size}: Fourier filter '{name}' differs from scikit-image's by "
                            f"{np.abs(got - ref).max():.3g}"))
    return out, n


def check(rep, tier, seed):
    quick = tier == "quick"
    rep.assume("decided by the model: angles 0/90/180, N = 3..7, no filter (exact integers)",
               "NOT decided by the model: oblique angles and the Fourier filters; these are compared with "
               "skimage.transform.radon / iradon / _get_fourier_filter (scikit-image 0.26, the installed reference) at "
               "enumerated sizes, angle sets, images and filters, tolerance 3e-4 relative (float32 port vs float64 reference)",
               "CPU only")
    sizes = (4, 5) if quick else (3, 4, 5, 6, 7)
    tmp = tempfile.mkdtemp(prefix="c07_")
    cases = []
    try:
        for n in sizes:
            c = tlc.cfg_variant(os.path.join(SPEC, "RadonMC.cfg"), tmp, "mc.cfg", {"N": n})
            r = tlc.run_tlc("RadonRight", c, spec_dir=SPEC, workers=16, timeout=1800)
            rep.add_tlc(r, f"RadonRight N={n}: ZeroDegColumnSums / MassKept / Adjoint / AngleOnly")
            tlc.expect_clean(r, "RadonMC")
            g = tlc.cfg_variant(os.path.join(SPEC, "RadonGEN.cfg"), tmp, "gen.cfg", {"N": n, "MaxAngles": 2 if quick else 3})
            rg = tlc.run_tlc("RadonRight", g, spec_dir=SPEC, workers=1, timeout=1800)
            tlc.expect_clean(rg, "RadonGEN")
            if not rg.cases:
                raise MachineryError("no cases exported")
            cs = rg.cases
            if quick:
                random.Random(seed + n).shuffle(cs)
                cs = cs[:80]
            cases += cs
        rn = tlc.run_tlc("RadonRight", "RadonNEG.cfg", spec_dir=SPEC, workers=8, timeout=600)
        tlc.expect_violation(rn, "RadonNEG (sampling grid mirrored about the centre row)", "ZeroDegColumnSums")
        rep.note("negative_controls", ["RadonNEG: mirrored sampling grid (pinned tree) drops image row 0 for even N"])
    finally:
        shutil.rmtree(tmp, ignore_errors=True)
    rep.note("cases", {"sizes": list(sizes), "replayed": len(cases)})
    rep.sample({"case": cases[0]})
    res = pmap(run_case, [(c, i) for i, c in enumerate(cases)], procs=16, chunk=8)
    for c, probs in zip(cases, res):
        rep.add_traces(1)
        rep.add_eval(1)
        rep.add_distinct([c["n"], c["angles"], c["img"]])
        seen = set()
        for key, msg in probs:
            if key not in seen:
                seen.add(key)
                rep.mismatch(key, msg, {"case": c, "message": msg})
    # differential part
    # sizes include those whose circle-padded length ceil(sqrt(2) N) is exactly a power of two (22 -> 32, 45 -> 64,
    # 90 -> 128: the padded FFT length sits on its boundary) and their neighbours
    dsizes = [4, 5, 8, 9, 16, 22, 23, 45] if quick else [3, 4, 5, 6, 7, 8, 9, 11, 12, 15, 16, 17, 22, 23, 24, 25, 30, 31, 32, 33,
                                                        45, 46, 64, 65, 90, 91]
    dres = pmap(differential, [(n, seed) for n in dsizes], procs=16, chunk=1)
    ndiff = 0
    for n, (probs, ne) in zip(dsizes, dres):
        ndiff += ne
        seen = set()
        for key, msg in probs:
            if key not in seen:
                seen.add(key)
                rep.mismatch(key, msg, {"differential": {"n": n, "seed": seed}, "message": msg})
    fprobs, nf = filters_vs_reference()
    for key, msg in fprobs:
        rep.mismatch(key, msg, {"filters": True, "message": msg})
    rep.note("differential_vs_scikit_image", {"sizes": dsizes, "comparisons": ndiff, "filter_tables": nf,
                                              "note": "not model-decided; the reference is the one the property names"})
    rep.add_eval(ndiff + nf)
    rule = ("model part: behaviours of RadonRight (image family x angle sequences over {0, 90, 180}) exported by TLC with "
            "exact sinograms and unfiltered back-projections, replayed single / batched / summed (float32); "
            "distinct by (N, angles, image).  Differential part (not model-decided): sizes x 8 angle sets x 3 images x 6 "
            "filters against scikit-image, plus linearity and batching relations")
    return rule, False


def replay(path):
    body = json.load(open(path))
    rp = body["replay"]
    if "case" in rp:
        out = run_case((rp["case"], 0))
    elif "differential" in rp:
        out = differential((rp["differential"]["n"], rp["differential"]["seed"]))[0]
    else:
        out = filters_vs_reference()[0]
    for o in out:
        print(o)
    return 1 if out else 0
