"""C18 — centre-of-mass origin estimation.  ComOrigin.tla (S->C, exact oracle).

TLC computes, in exact integer/rational arithmetic, the centre of mass of every pattern of
parametrised positive-integer 4-D datasets and checks ScheduleIndependent for every batch
size on the model (negative control: batch-total normalisation).  Every exported case is fed
to the four implementations (origin model for every batch size, dataset model vectorised
and looped, get_com_2d) and to the plane/constant fits and the integer origin shift.
"""
from __future__ import annotations

import contextlib
import io
import json
import os
import random
import shutil
import tempfile
import warnings

import numpy as np

from harness.common import tlc
from harness.common.par import pmap
from harness.common.tlc import MachineryError

SPEC = os.path.join(tlc.SPECS, "com")
TOL = 2e-5


def run_case(arg):
    case, idx = arg
    warnings.filterwarnings("ignore")
    import torch
    from quantem.core.datastructures.dataset4dstem import Dataset4dstem
    from quantem.diffractive_imaging.dataset_models import PtychographyDatasetRaster
    from quantem.diffractive_imaging.origin_models import CenterOfMassOriginModel
    from quantem.diffractive_imaging.ptycho_utils import fit_origin, get_com_2d
    out = []
    sr, sc, dr, dc = case["sr"], case["sc"], case["dr"], case["dc"]
    n = sr * sc
    # the same counts in several storage types, incl. non-native byte order (what big-endian files give); float32
    # big-endian is left out (torch.tensor refuses it on every tree)
    store_dt = [np.float32, "<u2", ">u2", ">f8", np.int32, ">i4", np.float64][idx % 7]
    # the centre of mass does not depend on the intensity scale (ScaleFree): float storage types also carry the counts
    # multiplied by an exact power of two, so that whole patterns sum to far less / far more than one
    scale = (1.0, 2.0 ** -14, 2.0 ** 9, 2.0 ** -6)[(idx // 7) % 4] if np.dtype(store_dt).kind == "f" else 1.0
    data = (np.array(case["data"], dtype=np.float64).reshape(sr, sc, dr, dc) * scale).astype(store_dt)
    com = np.array([[c[0][0] / c[0][1], c[1][0] / c[1][1]] for c in case["com"]])   # (n, 2) row, col
    tag = f"scan={sr}x{sc} det={dr}x{dc} dtype={np.dtype(store_dt).str} scale={scale:g} case={idx}"

    def bad(key, msg):
        out.append((key, f"{tag}: {msg}"))
    sink = io.StringIO()
    try:
        with contextlib.redirect_stdout(sink):
            cal = dict(sampling=(1.0, 1.0, 0.1, 0.1), units=("A", "A", "A^-1", "A^-1"))
            ds = Dataset4dstem.from_array(array=data.copy(), **cal)
            # 1. origin model, every batch size
            for bsz in list(range(1, n + 1)) + [None, n + 3]:
                om = CenterOfMassOriginModel.from_dataset(ds, device="cpu")
                om.calculate_origin(max_batch_size=bsz)
                got = om.origin_measured.detach().cpu().numpy()
                if got.shape != (n, 2) or np.abs(got - com).max() > TOL:
                    bad("C18:origin-model:com", f"batch size {bsz}: max error {np.abs(got - com).max():.4f} "
                                                f"(got {got[0]}, exact {com[0]})")
                    break
            # 2. dataset model, vectorised and looped
            for vec in (True, False):
                pd = PtychographyDatasetRaster.from_dataset4dstem(Dataset4dstem.from_array(array=data.copy(), **cal), verbose=0)
                pd.preprocess(com_fit_function="none", force_com_rotation=0, force_com_transpose=False,
                              plot_rotation=False, plot_com=False, vectorized=vec)
                gr, gc = (np.asarray(x, dtype=float) for x in pd.com_measured)
                got = np.stack([gr.reshape(-1), gc.reshape(-1)], 1)
                if np.abs(got - com).max() > TOL:
                    bad(f"C18:dataset-model:{'vectorized' if vec else 'looped'}:com",
                        f"max error {np.abs(got - com).max():.4f} (got {got[0]}, exact {com[0]})")
            # 3. get_com_2d on numpy and torch
            g = np.asarray(get_com_2d(np.asarray(data, dtype=np.float64).reshape(n, dr, dc)))
            if g.shape != (n, 2) or np.abs(g - com).max() > TOL:
                bad("C18:get_com_2d:numpy", f"max error {np.abs(g - com).max():.4f}")
            gt = get_com_2d(torch.tensor(np.asarray(data, dtype=np.float32).reshape(n, dr, dc))).numpy()
            if np.abs(gt - com).max() > TOL:
                bad("C18:get_com_2d:torch", f"max error {np.abs(gt - com).max():.4f}")
            if not np.array_equal(np.asarray(ds.array), data):
                bad("C18:inputs-modified", "the dataset array was modified by the origin estimation")
            # 4. plane / constant fits return the surface
            pv = np.array(case["planeVals"], dtype=float)          # (n, 2)
            if sr >= 2 and sc >= 2:
                om = CenterOfMassOriginModel.from_dataset(ds, device="cpu")
                om.origin_measured = torch.tensor(pv, dtype=torch.float)
                om.fit_origin_background(fit_method="plane")
                fit = om.origin_fitted.detach().cpu().numpy()
                if np.abs(fit - pv).max() > 1e-3:
                    bad("C18:origin-model:plane-fit", f"plane {case['planeR']}/{case['planeC']}: max error "
                                                     f"{np.abs(fit - pv).max():.4f}")
                fr, fc, _, _ = fit_origin(data=(pv[:, 0].reshape(sr, sc), pv[:, 1].reshape(sr, sc)),
                                          mask=np.ones((sr, sc), dtype=bool), fit_function="plane")
                if max(np.abs(fr.reshape(-1) - pv[:, 0]).max(), np.abs(fc.reshape(-1) - pv[:, 1]).max()) > 1e-3:
                    bad("C18:fit_origin:plane", f"plane {case['planeR']}/{case['planeC']} not returned")
            const = np.tile(np.array([[case["planeR"][0] + 0.5, case["planeC"][0] + 0.25]]), (n, 1))
            om = CenterOfMassOriginModel.from_dataset(ds, device="cpu")
            om.origin_measured = torch.tensor(const, dtype=torch.float)
            om.fit_origin_background(fit_method="constant")
            if np.abs(om.origin_fitted.detach().cpu().numpy() - const).max() > 1e-4:
                bad("C18:origin-model:constant-fit", "constant surface not returned")
            fr, fc, _, _ = fit_origin(data=(const[:, 0].reshape(sr, sc), const[:, 1].reshape(sr, sc)),
                                      mask=np.ones((sr, sc), dtype=bool), fit_function="constant")
            if max(np.abs(fr - const[0, 0]).max(), np.abs(fc - const[0, 1]).max()) > 1e-6:
                bad("C18:fit_origin:constant", "constant surface not returned")
            # 4b. the workflow as a history on ONE object: the steps after calculate_origin only read the measured
            # origins (TableStable), a repeated step repeats its answer, and forward() does not depend on the batch size
            om = CenterOfMassOriginModel.from_dataset(ds, device="cpu")
            om.calculate_origin(max_batch_size=2)
            fm = "plane" if (sr >= 2 and sc >= 2) else "constant"
            om.fit_origin_background(fit_method=fm)
            fit0 = om.origin_fitted.detach().clone()
            om.estimate_detector_rotation()
            rot0 = (om.detector_rotation_deg, om.detector_transpose)
            got = om.origin_measured.detach().cpu().numpy()
            if got.shape != (n, 2) or np.abs(got - com).max() > TOL:
                bad("C18:origin-model:history:measured-changed", f"after fit + detector-rotation estimate the measured origins deviate from the "
                                                                 f"centre of mass by {np.abs(got - com).max():.4f}")
            if not torch.equal(om.origin_fitted.detach(), fit0):
                bad("C18:origin-model:history:fitted-changed", "the detector-rotation estimate changed the fitted origins")
            om.estimate_detector_rotation()
            om.fit_origin_background(fit_method=fm)
            if (om.detector_rotation_deg, om.detector_transpose) != rot0 or \
                    float((om.origin_fitted.detach() - fit0).abs().max()) > 1e-4:
                bad("C18:origin-model:history:repeat", "repeating the rotation estimate / the fit on the same object gives another answer")
            ref = None
            for bsz in (None, 1, max(1, n - 2), n + 3):
                omf = CenterOfMassOriginModel.from_dataset(ds, device="cpu")
                omf.forward(max_batch_size=bsz, fit_method=fm)
                cur = (omf.origin_measured.detach().cpu().numpy(), omf.origin_fitted.detach().cpu().numpy(),
                       omf.shifted_tensor.detach().cpu().numpy())
                if np.abs(cur[0] - com).max() > TOL:
                    bad("C18:origin-model:forward:measured", f"forward(max_batch_size={bsz}): measured origins deviate from the centre of mass "
                                                             f"by {np.abs(cur[0] - com).max():.4f}")
                    break
                if ref is not None and (np.abs(cur[1] - ref[1]).max() > 1e-4 or np.abs(cur[2] - ref[2]).max() > 1e-3 * max(1.0, np.abs(ref[2]).max())):
                    bad("C18:origin-model:forward:batch", f"forward(max_batch_size={bsz}) differs from the un-batched workflow")
                    break
                ref = ref or cur
            # 5. integer origin -> corner is the circular roll
            ro = np.array(case["rollOrigins"], dtype=float)
            rolled = (np.array(case["rolled"], dtype=np.float64).reshape(sr, sc, dr, dc) * scale).astype(np.float32)
            for bi, bsz in enumerate([None] + list(range(1, n + 1)) + [n + 3]):      # every batch size, incl. non-dividing ones
                om = CenterOfMassOriginModel.from_dataset(ds, device="cpu")
                # the object's earlier life must not matter: nothing / a constant fit / a plane fit / a constant fit and
                # a shift came before the per-pattern origins are installed
                prior = (idx + bi) % 4
                if prior:
                    om.calculate_origin(max_batch_size=None)
                    om.fit_origin_background(fit_method="constant" if prior != 2 or sr < 2 or sc < 2 else "plane")
                    if prior == 3:
                        om.shift_origin_to((0, 0), max_batch_size=2)
                om.origin_fitted = torch.tensor(ro, dtype=torch.float)
                om.shift_origin_to((0, 0), max_batch_size=bsz)
                sh = om.shifted_tensor.detach().cpu().numpy().reshape(sr, sc, dr, dc)
                if np.abs(sh - rolled).max() > 1e-3 * scale:
                    bad("C18:origin-model:shift-roll", f"batch {bsz} (prior steps variant {prior}): max deviation from the roll "
                                                       f"{np.abs(sh - rolled).max():.4f}")
                    break
    except Exception as ex:  # noqa: BLE001
        bad("C18:raised", f"{type(ex).__name__}: {str(ex)[:200]}")
    return out


def check(rep, tier, seed):
    quick = tier == "quick"
    rep.assume("float32 implementations compared with exact rationals to 2e-5 px (inputs are small "
               "integers)", "detector masks are not reachable through the public preprocessing "
               "entry points and are not exercised", "plane fits need a scan of at least 2x2 positions",
               "fit_origin is called as the library calls it (boolean all-true finite mask)")
    shapes = [(2, 3, 3, 4), (2, 2, 4, 3)] if quick else [(2, 3, 3, 4), (2, 2, 4, 3), (3, 2, 5, 4), (1, 4, 3, 3), (3, 3, 2, 5)]
    tmp = tempfile.mkdtemp(prefix="c18_")
    cases = []
    try:
        for (sr, sc, dr, dc) in shapes:
            consts = {"SR": sr, "SC": sc, "DR": dr, "DC": dc}
            c = tlc.cfg_variant(os.path.join(SPEC, "ComMC.cfg"), tmp, "mc.cfg", consts)
            r = tlc.run_tlc("ComOrigin", c, spec_dir=SPEC, workers=16, timeout=1800)
            rep.add_tlc(r, f"ComOrigin scan={sr}x{sc} det={dr}x{dc}: every batch size")
            tlc.expect_clean(r, "ComMC")
            g = tlc.cfg_variant(os.path.join(SPEC, "ComGEN.cfg"), tmp, "gen.cfg", consts)
            rg = tlc.run_tlc("ComOrigin", g, spec_dir=SPEC, workers=1, timeout=1800)
            tlc.expect_clean(rg, "ComGEN")
            cs = rg.cases
            if not cs:
                raise MachineryError("no cases exported")
            if quick:
                random.Random(seed).shuffle(cs)
                cs = cs[:60]
            cases += cs
        rn = tlc.run_tlc("ComOrigin", "ComNEG.cfg", spec_dir=SPEC, workers=8, timeout=600)
        tlc.expect_violation(rn, "ComNEG (batch-total normalisation)", "ScheduleIndependent")
        rs = tlc.run_tlc("ComOrigin", "ComNEG_shift.cfg", spec_dir=SPEC, workers=8, timeout=600)
        tlc.expect_violation(rs, "ComNEG_shift (origins of a short last batch fetched at batch number * its length)",
                             "ShiftScheduleIndependent")
        rep.note("negative_controls", ["ComNEG: normalising by the batch total",
                                       "ComNEG_shift: a short last batch shifted by the origins of earlier patterns"])
    finally:
        shutil.rmtree(tmp, ignore_errors=True)
    rep.note("cases", {"shapes": shapes, "replayed": len(cases)})
    rep.sample({"case": {k: cases[0][k] for k in ("sr", "sc", "dr", "dc", "com", "planeR", "planeC", "rollOrigins")},
                "first_pattern": cases[0]["data"][0]})
    res = pmap(run_case, [(c, i) for i, c in enumerate(cases)], procs=16, chunk=4)
    for c, probs in zip(cases, res):
        rep.add_traces(1)
        rep.add_eval(1)
        rep.add_distinct(c["data"])
        seen = set()
        for key, msg in probs:
            if key in seen:
                continue
            seen.add(key)
            rep.mismatch(key, msg, {"case": c, "message": msg})
    rule = ("datasets are the parameter choices of ComOrigin's intensity family (288 per shape) with "
            "exact centres of mass, plane origins and rolled patterns computed by TLC; each is run "
            "through the origin model for every batch size 1..N, the dataset model (vectorised and "
            "looped), get_com_2d (numpy/torch), plane and constant fits, and the integer origin "
            "shift; distinct by data array")
    return rule, not quick


def replay(path):
    body = json.load(open(path))
    out = run_case((body["replay"]["case"], 0))
    for o in out:
        print(o)
    return 1 if out else 0
