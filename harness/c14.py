"""C14 — serializer skip lists.  Serializer.tla / SerializerMC.tla (S->C).

TLC checks SkippedAbsent, OthersUntouched, Persisted, SaveEqLoad and LoadSkipBoth on the
model for every (object graph with names reused at three nesting levels, subset of a
4-name alphabet, type list); the exported cases are replayed into save(skip=...)/load(skip=...)."""
from __future__ import annotations

import json
import random

from harness import c01


def check(rep, tier, seed):
    quick = tier == "quick"
    rep.assume("nested AutoSerialize objects are reached through attributes (not containers)",
               "skip types are module-level classes (the file stores module.qualname)",
               "skip names do not collide with class-level attributes of the saved classes")
    cases = c01.model_check(rep, "small", "Serializer skip-list laws")
    cases = [c for c in cases if c["skN"] or c["skT"]]
    total = len(cases)
    if quick:
        random.Random(seed).shuffle(cases)
        cases = cases[:400]
    elif len(cases) > 8000:
        random.Random(seed).shuffle(cases)
        cases = cases[:8000]
    rep.note("exported_cases", {"total": total, "replayed": len(cases)})
    rep.sample({"abstract_case": cases[0]["o"], "skip_names": cases[0]["skN"],
                "skip_types": cases[0]["skT"], "expected": cases[0]["expect"]})
    c01.run_cases(rep, "C14", cases, 1 if quick else 2)
    rule = ("cases = (graph, skip-name subset, skip-type list) initial states of SerializerMC "
            "exported by TLC; each is saved with skip, loaded plain / with the same skip / with "
            "further names, and the unskipped graph is loaded with the names skipped at load time; "
            "all results are compared with the model's expected object; distinct by case")
    return rule, False


def replay(path):
    return c01.replay(path)
