"""C09 — mini-batch scheduling.  Batcher.tla / BatcherTrace.tla.

1. TLC checks Partition, ExactlyOnce, EpochComplete, LenMatches, Deterministic and
   BatchMean on the bounded model; three wrong variants are rejected.
2. C->S: executions of the stand-alone SimpleBatcher (all small n x bs x ratio x mode x
   shuffle; two epochs, then a same-seed restart that must replay) and of
   Ptychography.reconstruct (hook events; reset and twin runs) are validated by TLC.
3. S->C numeric half: where the model's BatchMean premise holds (bs | #patterns) the
   real epoch-mean loss and gradients must equal the full-batch ones; seeded twin runs /
   reset runs must give identical loss histories.
"""
from __future__ import annotations

import itertools
import json
import os
import random
import shutil
import tempfile

import numpy as np

from harness.common import tlc
from harness.common.tlc import MachineryError

SPEC = os.path.join(tlc.SPECS, "batcher")


def _ev(op, **kw):
    e = {"op": op, "n": 0, "bs": 0, "train": [], "val": [], "idx": [], "len": 0}
    e.update(kw)
    return e


def _norm(e):
    return _ev(e["op"], **{k: v for k, v in e.items() if k in ("n", "bs", "train", "val", "idx", "len")})


# ------------------------------------------------------------------ stand-alone batcher
def batcher_trace(n, bs, ratio, mode, shuffle, seed, epochs=2):
    from quantem.diffractive_imaging.ptycho_utils import SimpleBatcher
    tr = []
    for run in range(2):
        b = SimpleBatcher(n, bs, shuffle=shuffle, rng=seed, val_ratio=ratio, val_mode=mode)
        tr.append(_ev("create", n=n, bs=int(b.batch_size), train=[int(i) for i in b.train_indices],
                      val=[int(i) for i in b.val_indices]))
        for _ in range(epochs):
            tr.append(_ev("start"))
            cnt = 0
            for batch in b:
                tr.append(_ev("batch", idx=[int(i) for i in batch]))
                cnt += 1
            tr.append(_ev("end", len=len(b)))
            tr.append(_ev("vstart"))
            for batch in b.iter_val():
                tr.append(_ev("vbatch", idx=[int(i) for i in batch]))
            tr.append(_ev("vend", len=int(b.val_len())))
        if run == 0:
            tr.append(_ev("restart"))
    return tr


def batcher_configs(quick, rng):
    ns = range(1, 13)
    ratios = [0.0, 0.1, 0.25, 1 / 3, 0.5, 0.6, 0.75, 0.9, 0.95]
    cfgs = []
    for n in ns:
        for bs in list(range(1, 15)) + [None]:
            for r in ratios:
                for mode in ("grid", "random"):
                    for sh in (True, False):
                        cfgs.append((n, bs, r, mode, sh))
    if quick:
        rng.shuffle(cfgs)
        cfgs = cfgs[:700]
    return cfgs


# ------------------------------------------------------------------ reconstruct via hook
class GradRecorder:
    """Factory for a torch optimizer that records gradients at step() and never moves the
    parameters (passed to reconstruct through optimizer_params[...]['type'])."""

    @staticmethod
    def make(store):
        import torch

        class _Rec(torch.optim.Optimizer):
            def __init__(self, params, lr=0.0):
                super().__init__(params, dict(lr=lr))

            def step(self, closure=None):
                g = []
                for grp in self.param_groups:
                    for p in grp["params"]:
                        g.append(None if p.grad is None else p.grad.detach().clone())
                store.append(g)

        return _Rec


def _recon_traces(rep, quick, seed):
    """Hook traces + numeric checks on the tiny fixture.  Returns (traces, metas)."""
    import torch
    from quantem.core.utils import _verif_trace as vt
    from harness.common import tiny_ptycho as tp

    if not vt.ENABLED:
        raise MachineryError("QUANTEM_VERIF hook is not enabled (env var missing)")
    sim = tp.simulate(gpts=(4, 4), roi=(8, 8), seed=seed)
    sim2 = tp.simulate(gpts=(3, 4), roi=(8, 6), num_probe_modes=2, seed=seed + 1)
    first = tp.build(sim, perturb=0.05, rng=1)
    tp.freeze_gc()
    del first
    traces, metas = [], []
    opt = {"object": {"type": "adam", "lr": 5e-3}, "probe": {"type": "adam", "lr": 1e-3}}

    combos = []
    for s, npat in ((sim, 16), (sim2, 12)):
        for bs in (1, 3, 4, 5, npat, npat + 4, None):
            for ratio, mode in ((0.0, "grid"), (0.25, "grid"), (0.5, "random"), (0.9, "grid"),
                                (1 / 3, "random")):
                combos.append((s, npat, bs, ratio, mode))
    if quick:
        random.Random(seed).shuffle(combos)
        combos = combos[:14]
    for ci, (s, npat, bs, ratio, mode) in enumerate(combos):
        # seeds: zero (falsy), small, large, and a Generator object
        # (also beyond 32 bits.  Generator OBJECTS are not used as seeds here: the fixture hands its `rng` argument to
        # the object model, the probe model and the reconstruction, which would then share - and the fixture's own
        # perturbation would pre-consume - one stream; that sharing is the caller's doing, not the library's)
        mk = [lambda: 0, lambda: 7 + (seed % 5), lambda: 2 ** 31 + 11, lambda: 1, lambda: 2 ** 32 + 11,
              lambda: 2 ** 40 + 3][ci % 6]

        class _Seed:            # every use below builds a new, equal seed object
            def __call__(self):
                return mk()
        rs_f = _Seed()
        # preprocessing may chunk its overlap computation (preprocess(batch_size=...)): nothing but the batcher may
        # draw from the reconstruction's generator, or "reset replays the first run" breaks
        pbs = [None, 4, 5][ci % 3]
        # run A, then reset + rerun (must replay), recorded through the hook
        sink: list = []
        vt.set_sink(sink)
        try:
            p = tp.build(s, perturb=0.05, rng=rs_f(), val_ratio=ratio, val_mode=mode, preprocess_batch_size=pbs)
            p.reconstruct(num_iters=2, batch_size=bs, optimizer_params=json.loads(json.dumps(opt)))
            la = [float(x) for x in p.iter_losses]
            if ci % 3 == 1:
                # a refused request leaves the object as it was: the reset below must still replay the first run
                for badrng in ("not-a-seed", np.random.RandomState(12)):
                    try:
                        p.rng = badrng
                    except (TypeError, ValueError):
                        pass
            p.reconstruct(num_iters=2, batch_size=bs, reset=True,
                          optimizer_params=json.loads(json.dumps(opt)))
            lb = [float(x) for x in p.iter_losses]
        finally:
            vt.set_sink(None)
        tr = [_norm(e) for e in sink]
        traces.append(tr)
        meta = {"kind": "reconstruct+reset", "patterns": npat, "bs": bs, "ratio": ratio, "mode": mode, "preprocess_bs": pbs}
        metas.append(meta)
        rep.add_eval(2)
        if la != lb[-2:] or len(lb) != 2:
            rep.mismatch("C09:reset:loss-history", f"loss history after reset differs: {la} vs {lb}",
                         {**meta, "first": la, "after_reset": lb})
        # twin run from the same seed (separate object)
        sink2: list = []
        vt.set_sink(sink2)
        try:
            q = tp.build(s, perturb=0.05, rng=rs_f(), val_ratio=ratio, val_mode=mode,
                         preprocess_batch_size=[5, None, 4][ci % 3])      # (another chunking than run A)
            q.reconstruct(num_iters=2, batch_size=bs, optimizer_params=json.loads(json.dumps(opt)))
            lq = [float(x) for x in q.iter_losses]
        finally:
            vt.set_sink(None)
        # concatenation "run A ; restart ; run B" is validated as one trace
        runA = [e for e in tr[: tr.index(next(e for e in tr if e["op"] == "restart"))]]
        traces.append(runA + [_ev("restart")] + [_norm(e) for e in sink2])
        metas.append({**meta, "kind": "twin runs, same seed"})
        if lq != la:
            rep.mismatch("C09:twin:loss-history", f"same-seed runs differ: {la} vs {lq}",
                         {**meta, "run1": la, "run2": lq})
        rep.add_distinct(meta)
    rep.sample({"hook_trace_head": traces[0][:6], "meta": metas[0]})

    # batch-mean invariance on every divisor (model property BatchMean)
    for s, npat in ((sim, 16), (sim2, 12)):
        for loss_type in (("l2_amplitude", "l1_intensity") if quick else
                          ("l2_amplitude", "l1_amplitude", "l2_intensity", "l1_intensity")):
            ref = None
            for d in [k for k in range(1, npat + 1) if npat % k == 0]:
                store_o, store_p = [], []
                p = tp.build(s, perturb=0.05, rng=3)
                p.reconstruct(num_iters=1, batch_size=d, loss_type=loss_type, optimizer_params={
                    "object": {"type": GradRecorder.make(store_o), "lr": 0.0},
                    "probe": {"type": GradRecorder.make(store_p), "lr": 0.0}})
                loss = float(p.iter_losses[-1])
                if len(store_o) != npat // d:
                    rep.mismatch("C09:batchmean:steps", f"{len(store_o)} optimizer steps for "
                                 f"{npat // d} batches", {"patterns": npat, "bs": d})
                    continue
                go = torch.stack([g[0] for g in store_o]).mean(0)
                gp = torch.stack([g[0] for g in store_p]).mean(0)
                rep.add_eval(1)
                rep.add_distinct({"batchmean": [npat, d, loss_type]})
                if ref is None:
                    if d != 1 and d != npat:
                        pass
                    ref = (d, loss, go, gp)
                    continue
                d0, l0, go0, gp0 = ref
                tol_l = 2e-4 * max(abs(l0), 1e-12)
                eo = float((go - go0).abs().max() / (go0.abs().max() + 1e-30))
                ep = float((gp - gp0).abs().max() / (gp0.abs().max() + 1e-30))
                if abs(loss - l0) > tol_l or eo > 2e-3 or ep > 2e-3:
                    rep.mismatch(f"C09:batchmean:{loss_type}",
                                 f"bs={d} vs bs={d0}: loss {loss} vs {l0}, rel grad err obj {eo:.2e} "
                                 f"probe {ep:.2e}", {"patterns": npat, "bs": d, "ref_bs": d0,
                                                     "loss": loss, "ref_loss": l0,
                                                     "obj_grad_err": eo, "probe_grad_err": ep,
                                                     "loss_type": loss_type})
    return traces, metas


# ------------------------------------------------------------------ validation
def _validate(rep, traces, metas, label):
    CH = 2500
    for a in range(0, len(traces), CH):
        chunk = traces[a:a + CH]
        r, prog = tlc.validate_traces("BatcherTrace", "BatcherTrace.cfg", SPEC, chunk, timeout=3000)
        rep.add_tlc(r, f"trace-validation {label} chunk{a // CH}")
        if len(prog) != len(chunk):
            raise MachineryError(f"progress vector length {len(prog)} != {len(chunk)}")
        for i, (t, p) in enumerate(zip(chunk, prog)):
            rep.add_traces(1)
            if p != len(t) + 1:
                k = max(p, 1) - 1
                ev = t[k]
                # which run of the trace?  before/after the restart
                after_restart = any(e["op"] == "restart" for e in t[:k])
                key = f"C09:{label}:{ev['op']}:{'replay' if after_restart else 'first-run'}"
                rep.mismatch(key, f"trace rejected by BatcherTrace at event {k + 1}/{len(t)}: {ev} "
                                  f"({metas[a + i]})",
                             {"trace": t, "first_unmatched_event": k + 1, "meta": metas[a + i]})


def _self_test(rep, traces):
    """Binding self-test: make the second batch of an epoch revisit a pattern of the first;
    the trace must be rejected exactly at that event."""
    for trace in traces:
        ks = [i for i in range(len(trace) - 1)
              if trace[i]["op"] == "batch" and trace[i + 1]["op"] == "batch"]
        if ks:
            break
    else:
        raise MachineryError("binding self-test: no trace with two consecutive batches")
    k = ks[0]
    bad = json.loads(json.dumps(trace))
    bad[k + 1]["idx"] = [bad[k]["idx"][0]] + bad[k + 1]["idx"][1:]
    r, prog = tlc.validate_traces("BatcherTrace", "BatcherTrace.cfg", SPEC, [trace, bad])
    if prog[0] != len(trace) + 1 or prog[1] != k + 2:
        raise MachineryError(f"binding self-test failed: progress {prog}, corrupted event {k + 2}")
    rep.note("binding_self_test", "a trace with a revisited pattern is rejected at that batch")


def check(rep, tier, seed):
    quick = tier == "quick"
    rep.assume("the split itself is unconstrained by the spec (any partition)",
               "loss histories of same-seed runs are compared for exact equality on CPU, one thread",
               "batch-mean invariance compared with rtol 2e-4 (loss) / 2e-3 of max |grad| (float32)")
    tmp = tempfile.mkdtemp(prefix="c09_")
    try:
        consts = {"MaxLog": 3, "MaxLevel": 9} if quick else {}
        c = tlc.cfg_variant(os.path.join(SPEC, "BatcherMC.cfg"), tmp, "mc.cfg", consts)
        r = tlc.run_tlc("Batcher", c, spec_dir=SPEC, workers=16, timeout=3000)
        rep.add_tlc(r, "Batcher design properties")
        tlc.expect_clean(r, "BatcherMC")
        for neg, prop in (("BatcherNEG_yield.cfg", "VisitedOnce"), ("BatcherNEG_len.cfg", "LenMatches"),
                          ("BatcherNEG_mean.cfg", "BatchMeanAlways")):
            rn = tlc.run_tlc("Batcher", neg, spec_dir=SPEC, workers=8, timeout=900)
            tlc.expect_violation(rn, neg, prop)
        rep.note("negative_controls", ["BatcherNEG_yield", "BatcherNEG_len", "BatcherNEG_mean"])
    finally:
        shutil.rmtree(tmp, ignore_errors=True)

    rng = random.Random(seed)
    cfgs = batcher_configs(quick, rng)
    traces, metas = [], []
    for i, (n, bs, ratio, mode, sh) in enumerate(cfgs):
        try:
            t = batcher_trace(n, bs, ratio, mode, sh, seed=seed * 131 + i)
        except Exception as ex:  # noqa: BLE001
            rep.mismatch("C09:batcher:raised", f"SimpleBatcher raised {type(ex).__name__}: {ex}",
                         {"n": n, "bs": bs, "ratio": ratio, "mode": mode, "shuffle": sh})
            continue
        traces.append(t)
        metas.append({"n": n, "bs": bs, "ratio": ratio, "mode": mode, "shuffle": sh})
        rep.add_eval(1)
        rep.add_distinct(["batcher", n, bs, ratio, mode, sh])
    rep.sample({"batcher_config": metas[0], "trace_head": traces[0][:5]})
    _validate(rep, traces, metas, "batcher")
    ok_trace = traces[0]

    rtraces, rmetas = _recon_traces(rep, quick, seed)
    _validate(rep, rtraces, rmetas, "reconstruct")
    if rep.violations == 0:
        _self_test(rep, traces)
    rule = ("stand-alone batcher: (n, bs, ratio, mode, shuffle) grid, two epochs + same-seed restart; "
            "reconstruct: hook traces on tiny synthetic datasets for (patterns, bs, ratio, mode) with "
            "reset and twin runs; batch-mean: every divisor of the pattern count; distinct by "
            "configuration tuple")
    return rule, not quick


def replay(path):
    body = json.load(open(path))
    rp = body["replay"]
    if "trace" in rp:
        r, prog = tlc.validate_traces("BatcherTrace", "BatcherTrace.cfg", SPEC, [rp["trace"]])
        print("progress", prog, "of", len(rp["trace"]) + 1, "meta", rp.get("meta"))
        return 0 if prog[0] == len(rp["trace"]) + 1 else 1
    print(json.dumps(rp, indent=1))
    return 1
