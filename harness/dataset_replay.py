"""Replays DatasetMC behaviours (exported by TLC) into real quantem Dataset objects (C03/C06).

After every action the produced/modified object is compared with the model's post-state:
class, shape, origin, sampling, units, and the data rebuilt from the model's per-axis source
bags applied to the concrete base array the replayer holds.  Every other live object must be
bit-identical before and after; the in-place and copying variants of an operation must agree;
setters that the model marks `raises` must raise and change nothing.
"""
from __future__ import annotations

import hashlib
import string

import numpy as np

NONE = 99
DTYPES = [np.int64, np.float64, np.complex128, np.float32, np.int16, np.uint8, np.complex64]


def fmap(x):
    """TLC functions with integer domains arrive as JSON arrays (domain 1..n) or objects."""
    if isinstance(x, list):
        return {i + 1: v for i, v in enumerate(x)}
    return {int(k): v for k, v in x.items()}


def classes():
    from quantem.core.datastructures.dataset import Dataset
    from quantem.core.datastructures.dataset2d import Dataset2d
    from quantem.core.datastructures.dataset3d import Dataset3d
    from quantem.core.datastructures.dataset4d import Dataset4d
    from quantem.core.datastructures.dataset4dstem import Dataset4dstem
    return {"Dataset": Dataset, "Dataset2d": Dataset2d, "Dataset3d": Dataset3d,
            "Dataset4d": Dataset4d, "Dataset4dstem": Dataset4dstem}


def make_base(shape, variant):
    dt = DTYPES[variant % len(DTYPES)]
    rng = np.random.default_rng(1000 + variant)
    a = rng.integers(0, 9, size=tuple(shape))
    # narrow integer dtypes carry values near the ends of their range, so that block sums do not fit the dtype
    # (binning must add counts up exactly, in whatever wider type that takes)
    if dt is np.uint8:
        a = rng.integers(120, 256, size=tuple(shape))
    elif dt is np.int16:
        a = rng.integers(-30000, 30001, size=tuple(shape))
    if np.issubdtype(dt, np.complexfloating):
        a = a + 1j * rng.integers(0, 9, size=tuple(shape))
    return a.astype(dt)


def expected_array(post, bases):
    """out[i1..in] = sum over the bags of base[...] / div  (einsum with count matrices)."""
    B = np.asarray(bases[post["base"]])
    if np.issubdtype(B.dtype, np.integer):
        B = B.astype(np.int64)
    elif B.dtype == np.float32:
        B = B.astype(np.float64)
    elif B.dtype == np.complex64:
        B = B.astype(np.complex128)
    letters = string.ascii_lowercase
    base_l = letters[:B.ndim]
    out_l = ""
    ops, subs = [B], [base_l]
    used = set()
    for j, ax in enumerate(post["axes"]):
        b = ax["b"] - 1
        n_out, n_base = len(ax["src"]), B.shape[b]
        W = np.zeros((n_out, n_base), dtype=np.int64)
        for k, bag in enumerate(ax["src"]):
            for s in bag:
                W[k, s] += 1
        ol = letters[B.ndim + j]
        ops.append(W)
        subs.append(ol + base_l[b])
        out_l += ol
        used.add(b)
    for pin in post["pins"]:
        b = pin["b"] - 1
        w = np.zeros(B.shape[b], dtype=np.int64)
        for s in pin["bag"]:
            w[s] += 1
        ops.append(w)
        subs.append(base_l[b])
        used.add(b)
    if used != set(range(B.ndim)):
        raise RuntimeError(f"model object does not account for every base axis: {used} of {B.ndim}")
    out = np.einsum(",".join(subs) + "->" + out_l, *ops)
    if post["div"] != 1:
        out = out / post["div"]
    return out


def rat(r):
    return r[0] / r[1]


def digest(ds):
    h = hashlib.sha1()
    a = np.ascontiguousarray(ds.array)
    h.update(str(a.dtype).encode() + str(a.shape).encode() + a.tobytes())
    h.update(np.asarray(ds.origin, dtype=float).tobytes() + np.asarray(ds.sampling, dtype=float).tobytes())
    h.update(repr(list(ds.units)).encode() + type(ds).__name__.encode())
    return h.hexdigest()


def compare(ds, post, bases, what):
    """Returns None or a message."""
    if type(ds).__name__ != post["cls"]:
        return f"{what}: class {type(ds).__name__} != {post['cls']}"
    shape = tuple(len(ax["src"]) for ax in post["axes"])
    if tuple(ds.shape) != shape:
        return f"{what}: shape {tuple(ds.shape)} != {shape}"
    nd = len(shape)
    if len(ds.origin) != nd or len(ds.sampling) != nd or len(ds.units) != nd:
        return (f"{what}: calibration lengths origin={len(ds.origin)} sampling={len(ds.sampling)} "
                f"units={len(ds.units)} for ndim={nd}")
    for j, ax in enumerate(post["axes"]):
        for name, got, want in (("origin", float(ds.origin[j]), rat(ax["o"])),
                                ("sampling", float(ds.sampling[j]), rat(ax["s"]))):
            if abs(got - want) > 1e-10 * (1 + abs(want)):
                return f"{what}: {name}[{j}] = {got} != {want}"
        if str(ds.units[j]) != ax["u"]:
            return f"{what}: units[{j}] = {ds.units[j]!r} != {ax['u']!r}"
    exp = expected_array(post, bases)
    got = np.asarray(ds.array)
    if got.shape != exp.shape:
        return f"{what}: array shape {got.shape} != {exp.shape}"
    if np.issubdtype(got.dtype, np.integer) and np.issubdtype(exp.dtype, np.integer):
        ok = np.array_equal(got.astype(np.int64), exp)
    else:
        ok = np.allclose(got, exp, rtol=1e-6 if got.dtype in (np.float32, np.complex64) else 1e-12,
                         atol=1e-6 if got.dtype in (np.float32, np.complex64) else 1e-12)
    if not ok:
        return f"{what}: data differ from the model's source-bag reconstruction"
    return None


def py_index(arg, variant):
    e = fmap(arg["e"]) if not isinstance(arg["e"], list) else {i + 1: v for i, v in enumerate(arg["e"])}
    items = []
    for j in sorted(e):
        ix = e[j]
        if ix["t"] == "int":
            items.append(np.int64(ix["a"]) if variant % 3 == 1 else int(ix["a"]))
        elif ix["t"] == "slice":
            a = None if ix["a"] == NONE else int(ix["a"])
            b = None if ix["b"] == NONE else int(ix["b"])
            c = int(ix["c"])
            items.append(slice(a, b, None if (c == 1 and variant % 2 == 0) else c))
        else:
            items.append([int(x) for x in ix["l"]])
    full = slice(None)

    def is_full(x):
        return isinstance(x, slice) and x.start is None and x.stop is None and x.step in (None, 1)
    if arg.get("ell", 0):
        p = arg["ell"] - 1
        q = p
        while q < len(items) and is_full(items[q]):
            q += 1
        items = items[:p] + [Ellipsis] + items[q:]
    elif arg.get("short"):
        while len(items) > 1 and is_full(items[-1]):
            items.pop()
    if len(items) == 1 and variant % 2 == 0:
        return items[0]
    return tuple(items)


def apply(ds, ev, inplace, variant):
    """Perform the model action on the real dataset.  Returns the new dataset (or ds if in place)."""
    op, arg = ev["op"], ev["arg"]
    nd = ds.ndim
    if op == "copy":
        return ds.copy()
    if op.startswith("set_"):
        what = op[4:]
        if what == "origin":
            val = {"scalar": 7, "list": [10 + j + 1 for j in range(nd)], "wronglen": [1.0] * (nd + 1)}[arg]
            if arg == "list" and variant % 2:
                val = np.array(val, dtype=float)
            ds.origin = val
        elif what == "sampling":
            val = {"scalar": 1.5, "list": [(j + 1 + 2) / 4 for j in range(nd)], "wronglen": [1.0] * (nd + 1)}[arg]
            if arg == "list" and variant % 2:
                val = tuple(val)
            ds.sampling = val
        else:
            ds.units = {"list": [f"v{j + 1}" for j in range(nd)], "wronglen": ["x"] * (nd + 1)}[arg]
        return ds
    kw = {"modify_in_place": True} if inplace else {}

    def listed(keys):
        """The model's argument is a mapping axis -> value: the order in which the caller lists the axes carries no
        meaning.  The replay lists them ascending, descending or rotated, depending on the variant."""
        ks_ = sorted(keys)
        if len(ks_) >= 2 and variant % 3 == 1:
            return ks_[::-1]
        if len(ks_) >= 2 and variant % 3 == 2:
            return ks_[1:] + ks_[:1]
        return ks_
    if op == "pad":
        if arg["kind"] == "scalar":
            r = ds.pad(pad_width=1, **kw)
        elif arg["kind"] == "per-axis":
            w = fmap(arg["w"])
            r = ds.pad(pad_width=tuple((int(w[j][0]), int(w[j][1])) for j in sorted(w)), **kw)
        else:
            out = fmap(arg["out"])
            r = ds.pad(output_shape=tuple(int(out[j]) for j in sorted(out)), **kw)
    elif op == "crop":
        w = fmap(arg["w"])
        if arg["allaxes"]:
            r = ds.crop(tuple((int(w[j][0]), int(w[j][1])) for j in sorted(w)), **kw)
        else:
            ks = listed(w)
            if len(ks) == 1 and variant % 2:
                r = ds.crop(((int(w[ks[0]][0]), int(w[ks[0]][1])),), axes=ks[0] - 1, **kw)
            else:
                r = ds.crop(tuple((int(w[j][0]), int(w[j][1])) for j in ks), axes=tuple(j - 1 for j in ks), **kw)
    elif op == "bin":
        f = fmap(arg["f"])
        red = "mean" if arg["mean"] else "sum"
        if arg["form"] == "scalar-all":
            r = ds.bin(int(f[1]), reducer=red, **kw)
        else:
            ks = listed(f)
            if len(ks) == 1 and variant % 2:
                r = ds.bin(int(f[ks[0]]), axes=ks[0] - 1, reducer=red, **kw)
            else:
                r = ds.bin(tuple(int(f[j]) for j in ks), axes=tuple(j - 1 for j in ks), reducer=red, **kw)
    elif op == "resample":
        o = fmap(arg["o"])
        if arg["form"] == "factors":
            r = ds.fourier_resample(factors=2.0, **kw)
        elif arg["form"] == "factors-tuple":
            ks = listed(o)
            f = arg["fac"][0] / arg["fac"][1]
            if len(ks) == 1 and variant % 2:
                r = ds.fourier_resample(factors=f, axes=ks[0] - 1, **kw)
            else:
                r = ds.fourier_resample(factors=tuple(f for _ in ks), axes=tuple(j - 1 for j in ks), **kw)
        else:
            ks = listed(o)
            r = ds.fourier_resample(out_shape=tuple(int(o[j]) for j in ks), axes=tuple(j - 1 for j in ks), **kw)
    elif op == "pad_crop":
        out, w = fmap(arg["out"]), fmap(arg["w"])
        padded = ds.pad(output_shape=tuple(int(out[j]) for j in sorted(out)))
        return padded.crop(tuple((int(w[j][0]), -int(w[j][1])) for j in sorted(w)))
    elif op == "index":
        return ds[py_index(arg, variant)]
    else:
        raise RuntimeError(f"unknown op {op}")
    if inplace:
        if r is not None:
            raise AssertionError(f"{op}(modify_in_place=True) returned {type(r).__name__}")
        return ds
    return r


def finding_key(pid, ev, msg):
    op = ev["op"]
    if op == "index":
        e = ev["arg"]["e"]
        e = list(fmap(e).values()) if not isinstance(e, list) else e
        kinds = [x["t"] for x in e]
        adv = [i for i, k in enumerate(kinds) if k in ("int", "list")]
        if "list" in kinds and "int" in kinds and adv and any(kinds[i] == "slice" for i in range(adv[0], adv[-1])):
            return f"{pid}:index:int-slice-list:calibration-order"
    what = "data" if "data differ" in msg else "class" if "class" in msg else "calibration" if (
        "origin" in msg or "sampling" in msg or "units" in msg) else "shape" if "shape" in msg else "other"
    return f"{pid}:{op}:{what}"


def replay_behaviour(arg):
    """arg = (hist, variant).  Returns list of (key, msg, event_index)."""
    hist, variant, pid = arg
    cls = classes()
    problems = []
    bases, objs = {}, []
    for k, ev in enumerate(hist):
        op = ev["op"]
        post = ev["post"]
        try:
            if op == "from_array":
                shape = ev["arg"]
                bases[1] = make_base(shape, variant)
                nd = len(shape)
                ds = cls[post["cls"]].from_array(
                    array=bases[1].copy(), origin=[float(j + 1) for j in range(nd)],
                    sampling=[(j + 2) / 2 for j in range(nd)], units=[f"u{j + 1}" for j in range(nd)])
                objs.append(ds)
                m = compare(ds, post, bases, "from_array")
                if m:
                    problems.append((f"{pid}:from_array", m, k))
                    return problems
                continue
            i = ev["i"] - 1
            src = objs[i]
            others = [(n, digest(o)) for n, o in enumerate(objs) if not (ev["inplace"] and n == i)]
            before = digest(src)
            if ev["raises"]:
                try:
                    apply(src, ev, True, variant)
                    problems.append((f"{pid}:{op}:not-raised", f"{op}({ev['arg']}) with a wrong-length value "
                                                               "did not raise", k))
                except (ValueError, TypeError):
                    pass
                if digest(src) != before:
                    problems.append((f"{pid}:{op}:raised-but-changed", f"{op} raised but modified the dataset", k))
                continue
            # the other variant (in place <-> copying) on a clone, for operations that have both
            twin = None
            if op in ("pad", "crop", "bin", "resample"):
                clone = src.copy()
                twin = apply(clone, ev, not ev["inplace"], variant)
            res = apply(src, ev, ev["inplace"], variant)
            if op == "resample":
                bases[post["base"]] = np.array(res.array, copy=True)
            m = compare(res, post, bases, f"{op}{'[in place]' if ev['inplace'] else ''}")
            if m:
                problems.append((finding_key(pid, ev, m), f"{m}  (event {k}: {op} {str(ev['arg'])[:150]})", k))
                return problems
            if twin is not None:
                # (the clone is contiguous, the original may be a strided view: summation order,
                # hence rounding, may differ at the precision of the array's dtype)
                lowp = np.asarray(res.array).dtype in (np.float32, np.complex64, np.float16)
                same = (type(twin) is type(res) and twin.shape == res.shape
                        and np.allclose(twin.array, res.array, rtol=1e-4 if lowp else 1e-11,
                                        atol=(1e-4 if lowp else 1e-11) * (1 + float(np.abs(res.array).max(initial=0))))
                        and np.allclose(twin.origin, res.origin) and np.allclose(twin.sampling, res.sampling)
                        and list(twin.units) == list(res.units))
                if not same:
                    problems.append((f"{pid}:{op}:inplace-vs-copy", f"in-place and copying variants of {op} "
                                                                      f"differ ({str(ev['arg'])[:120]})", k))
            for n, d in others:
                if digest(objs[n]) != d:
                    problems.append((f"{pid}:{op}:source-modified",
                                     f"{op}{'[in place]' if ev['inplace'] else ''} modified another live "
                                     f"dataset (object {n + 1})", k))
            if not ev["inplace"]:
                if res is src:
                    problems.append((f"{pid}:{op}:returned-self", f"{op} returned the source object", k))
                objs.append(res)
        except AssertionError as ex:
            problems.append((f"{pid}:{op}:contract", str(ex), k))
            return problems
        except Exception as ex:  # noqa: BLE001 - library exception where the model expects success
            problems.append((finding_key(pid, ev, "raised") + ":raised",
                             f"{op} {str(ev['arg'])[:150]} raised {type(ex).__name__}: {str(ex)[:150]}", k))
            return problems
    return problems
