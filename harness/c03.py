"""C03 — Dataset containers stay coherent under any history.  DatasetOps.tla / DatasetMC.tla (S->C)."""
from __future__ import annotations

import json
import os
import random
import shutil
import tempfile

from harness.common import tlc
from harness.common.par import pmap
from harness.common.tlc import MachineryError

SPEC = os.path.join(tlc.SPECS, "dataset")


def generate(rep, tmp, maxlen, inits, label, simulate=None, depth=None, seed=0, maxobjs=3):
    g = tlc.cfg_variant(os.path.join(SPEC, "DatasetGEN.cfg"), tmp, f"gen_{label}.cfg",
                        {"MaxLen": maxlen, "Inits": f'"{inits}"', "MaxObjs": maxobjs},
                        drop_prefixes=("CONSTRAINT",) if simulate else ())
    r = tlc.run_tlc("DatasetMC", g, spec_dir=SPEC, workers=1, timeout=3000, simulate=simulate,
                    depth=depth, seed=seed)
    if not simulate:
        tlc.expect_clean(r, f"DatasetGEN {label}")
    elif r.violated:
        raise MachineryError(f"DatasetGEN {label}: {r.violated}")
    if not r.cases:
        raise MachineryError(f"DatasetGEN {label}: no behaviours\n{r.stdout[-1500:]}")
    return r.cases


def run(rep, pid, hists, procs=16):
    from harness.dataset_replay import replay_behaviour
    res = pmap(replay_behaviour, [(h, i, pid) for i, h in enumerate(hists)], procs=procs, chunk=32)
    for h, probs in zip(hists, res):
        rep.add_traces(1)
        rep.add_eval(len(h))
        rep.add_distinct([(e["op"], e["i"], e["inplace"], e["arg"]) for e in h])
        seen = set()
        for key, msg, k in probs:
            if key in seen:
                continue
            seen.add(key)
            rep.mismatch(key, msg, {"behaviour": h, "event": k, "message": msg})


def model_check(rep, tmp, maxlen, inits):
    c = tlc.cfg_variant(os.path.join(SPEC, "DatasetMC.cfg"), tmp, "mc.cfg",
                        {"MaxLen": maxlen, "Inits": f'"{inits}"'})
    r = tlc.run_tlc("DatasetMC", c, spec_dir=SPEC, workers=16, timeout=3000)
    rep.add_tlc(r, f"DatasetOps invariants, {maxlen} actions deep, inits={inits}")
    tlc.expect_clean(r, "DatasetMC")
    rn = tlc.run_tlc("DatasetMC", "DatasetNEG.cfg", spec_dir=SPEC, workers=8, timeout=900)
    tlc.expect_violation(rn, "DatasetNEG (calibration kept in natural order)", "InvCalWithData")
    rep.note("negative_controls", ["DatasetNEG: natural-order calibration -> InvCalWithData violated"])


def check(rep, tier, seed):
    quick = tier == "quick"
    rep.assume("index expressions leave at least one axis, hold at most one list index without "
               "repeated entries, and select at least one element per axis",
               "a Fourier resample re-bases the data model (its values are decided by C06's laws)",
               "origin is not shifted by slice starts or crops (as the property states: kept axes' "
               "calibration, sampling multiplied by the step)")
    tmp = tempfile.mkdtemp(prefix="c03_")
    try:
        model_check(rep, tmp, 2 if quick else 3, "small")
        hists = generate(rep, tmp, 2, "full", "depth1")           # every operation instance once
        n1 = len(hists)
        if quick:
            sim = generate(rep, tmp, 9, "full", "sim", simulate="num=250", depth=9, seed=seed + 3)
            d2 = []
        else:
            d2 = generate(rep, tmp, 3, "small", "depth2")
            sim = generate(rep, tmp, 13, "full", "sim", simulate="num=3000", depth=13, seed=seed + 3,
                           maxobjs=4)
        # simulation prints every sibling successor at the last level: keep a seeded sample
        random.Random(seed).shuffle(sim)
        sim = sim[: (600 if quick else 8000)]
        rep.note("behaviours", {"exhaustive_1_action": n1, "exhaustive_2_actions": len(d2),
                                "simulated": len(sim),
                                "simulated_length": 8 if quick else 12})
    finally:
        shutil.rmtree(tmp, ignore_errors=True)
    allh = hists + d2 + sim
    rep.sample({"behaviour": [{k: v for k, v in e.items() if k != "post"} for e in sim[0]]})
    rep.sample({"event_with_post": hists[len(hists) // 2][-1]})
    run(rep, "C03", allh)
    rule = ("behaviours of DatasetMC exported by TLC: exhaustive over the curated operation alphabet "
            "to 1 (quick) / 2 (thorough) actions from every initial class/shape, plus seeded "
            "simulation to 8/12 actions; each replayed on real datasets with five dtypes; the model "
            "is checked by TLC exhaustively to 2/3 actions; distinct by operation sequence")
    return rule, False


def replay(path):
    from harness.dataset_replay import replay_behaviour
    body = json.load(open(path))
    h = body["replay"]["behaviour"]
    bad = 0
    for v in range(7):
        out = replay_behaviour((h, v, body["property"]))
        for o in out:
            print(v, o)
            bad = 1
    return bad
