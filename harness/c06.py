"""C06 — conservation laws of bin / Fourier resample / pad / crop.  DatasetOps.tla (S->C).

TLC checks on the source-bag model: BinConserves (every covered sample counted exactly once,
trailing remainder dropped, block-centre preservation in exact rationals), PadCropIdentity,
ResampleMeta (centre and extent preserved).  All bin / pad+crop / resample instances of the
rich argument space are exported and replayed: data are compared with the exact
reconstruction from the bags (bin, pad, crop); resample results are checked against the laws
the property states (identity, linearity, mean, up-then-down) for the model-enumerated
(shape, out_shape, axes)."""
from __future__ import annotations

import json
import os
import random
import shutil
import tempfile

import numpy as np

from harness.common import tlc
from harness.common.par import pmap
from harness.common.tlc import MachineryError
from harness import c03

SPEC = c03.SPEC


def resample_laws(arg):
    """arg = (shape, axes(0-based), out lens, variant). Returns list of (key, msg)."""
    shape, axes, outs, variant = arg
    from quantem.core.datastructures.dataset import Dataset
    out = []
    rng = np.random.default_rng(variant)
    kinds = ["float", "complex", "int"]
    kind = kinds[variant % 3]

    def mk():
        a = rng.integers(-9, 9, size=shape).astype(float)
        if kind == "complex":
            a = a + 1j * rng.integers(-9, 9, size=shape)
        if kind == "int":
            a = a.astype(np.int32)
        return a
    x, y = mk(), mk()
    tag = f"shape={tuple(shape)} axes={tuple(axes)} out={tuple(outs)} {kind}"

    def rs(a, o=outs, inplace=False):
        d = Dataset.from_array(array=a.copy(), origin=[1.0 + j for j in range(a.ndim)],
                               sampling=[0.5 * (j + 2) for j in range(a.ndim)])
        if inplace:
            d.fourier_resample(out_shape=tuple(o), axes=tuple(axes), modify_in_place=True)
            return d
        return d.fourier_resample(out_shape=tuple(o), axes=tuple(axes))
    try:
        rx, ry = rs(x), rs(y)
        scale = max(1.0, float(np.abs(x).max()))
        tol = 1e-9 * scale * int(np.prod(shape))
        # mean preservation
        if abs(rx.array.mean() - x.mean()) > tol:
            out.append(("C06:resample:mean", f"{tag}: mean {rx.array.mean()} != {x.mean()}"))
        # linearity
        a, b = 2.0, -3.0
        rl = rs((a * x.astype(rx.array.dtype) + b * y.astype(rx.array.dtype)))
        if not np.allclose(rl.array, a * rx.array + b * ry.array, atol=10 * tol, rtol=1e-9):
            out.append(("C06:resample:linearity", f"{tag}: not linear"))
        # identity when the shape is unchanged
        same = [shape[ax] for ax in axes]
        ri = rs(x, same)
        if not np.allclose(ri.array, x, atol=tol, rtol=1e-9) or not np.allclose(ri.sampling, [0.5 * (j + 2) for j in range(x.ndim)]) \
                or not np.allclose(ri.origin, [1.0 + j for j in range(x.ndim)]):
            out.append(("C06:resample:identity", f"{tag}: unchanged shape is not the identity"))
        # in-place == copying
        rp = rs(x, inplace=True)
        if not (np.allclose(rp.array, rx.array, atol=tol) and np.allclose(rp.origin, rx.origin)
                and np.allclose(rp.sampling, rx.sampling)):
            out.append(("C06:resample:inplace-vs-copy", f"{tag}: in-place differs from copy"))
        # up-sampling then down-sampling returns the data for signals without Nyquist content
        if all(o >= shape[ax] for o, ax in zip(outs, axes)) and kind != "int":
            X = np.fft.fftn(x, axes=axes)
            for ax in axes:
                n = shape[ax]
                if n % 2 == 0:
                    sl = [slice(None)] * x.ndim
                    sl[ax] = n // 2
                    X[tuple(sl)] = 0
            xb = np.fft.ifftn(X, axes=axes)
            xb = xb.real if kind == "float" else xb
            up = rs(xb)
            back = up.fourier_resample(out_shape=tuple(same), axes=tuple(axes))
            if not np.allclose(back.array, xb, atol=10 * tol, rtol=1e-9):
                out.append(("C06:resample:up-down", f"{tag}: up- then down-sampling does not return the "
                                                    f"band-limited input (max err {np.abs(back.array - xb).max():.3g})"))
            if not (np.allclose(back.origin, [1.0 + j for j in range(x.ndim)])
                    and np.allclose(back.sampling, [0.5 * (j + 2) for j in range(x.ndim)])):
                out.append(("C06:resample:up-down-meta", f"{tag}: calibration not restored"))
    except Exception as ex:  # noqa: BLE001
        out.append(("C06:resample:raised", f"{tag}: {type(ex).__name__}: {str(ex)[:150]}"))
    return out


def check(rep, tier, seed):
    quick = tier == "quick"
    rep.assume("integer-valued inputs so that block sums are exact in floating point",
               "accuracy of NumPy's FFT itself is trusted; tolerances 1e-9 * |x|max * N",
               "up-then-down law checked on inputs whose Nyquist planes are zeroed by the harness")
    tmp = tempfile.mkdtemp(prefix="c06_")
    try:
        c = tlc.cfg_variant(os.path.join(SPEC, "Dataset06MC.cfg"), tmp, "mc.cfg", {"MaxLen": 1 if quick else 2})
        r = tlc.run_tlc("DatasetMC", c, spec_dir=SPEC, workers=16, timeout=3000)
        rep.add_tlc(r, "DatasetOps conservation laws (rich arguments)")
        tlc.expect_clean(r, "Dataset06MC")
        # negative control: a bin that keeps the origin (no shift to the block centre)
        g = tlc.cfg_variant(os.path.join(SPEC, "DatasetGEN.cfg"), tmp, "gen.cfg",
                            {"MaxLen": 2, "Inits": '"c06"', "Mode": '"c06"'})
        rg = tlc.run_tlc("DatasetMC", g, spec_dir=SPEC, workers=1, timeout=3000)
        tlc.expect_clean(rg, "Dataset06GEN")
        hists = rg.cases
    finally:
        shutil.rmtree(tmp, ignore_errors=True)
    if not hists:
        raise MachineryError("no behaviours exported")
    total = len(hists)
    res_cases = []
    for h in hists:
        ev = h[-1]
        if ev["op"] == "resample" and not ev["inplace"]:
            from harness.dataset_replay import fmap
            o = fmap(ev["arg"]["o"])
            res_cases.append((tuple(h[0]["arg"]), tuple(j - 1 for j in sorted(o)), tuple(int(o[j]) for j in sorted(o))))
    if quick:
        random.Random(seed).shuffle(hists)
        hists = hists[:1500]
        random.Random(seed + 1).shuffle(res_cases)
        res_cases = res_cases[:400]
    rep.note("behaviours", {"exported": total, "replayed": len(hists), "resample_law_cases": len(res_cases)})
    rep.sample({"behaviour": [{k: v for k, v in e.items() if k != "post"} for e in hists[0]]})
    c03.run(rep, "C06", hists)
    out = pmap(resample_laws, [(s, a, o, i) for i, (s, a, o) in enumerate(res_cases)], procs=16, chunk=16)
    for (s, a, o), probs in zip(res_cases, out):
        rep.add_eval(1)
        rep.add_distinct(["resample-laws", s, a, o])
        for key, msg in probs:
            rep.mismatch(key, msg, {"shape": s, "axes": a, "out_shape": o, "message": msg})
    rule = ("single-operation behaviours of DatasetMC in c06 mode exported by TLC: every axis subset "
            "x factors 1..4 x sum/mean x in-place/copy (bin), pad-to-shape+crop, crop, pad, and "
            "resample to lengths {1,2,3,4,5,7,8} on 1-2 axes, from 8 initial shapes (1-D..4-D, "
            "odd/even); data compared with the exact bag reconstruction; resample laws on "
            "model-enumerated (shape, out_shape, axes) with float/complex/int inputs")
    return rule, not quick


def replay(path):
    body = json.load(open(path))
    rp = body["replay"]
    if "behaviour" in rp:
        return c03.replay(path)
    out = resample_laws((tuple(rp["shape"]), tuple(rp["axes"]), tuple(rp["out_shape"]), 0)) + \
        resample_laws((tuple(rp["shape"]), tuple(rp["axes"]), tuple(rp["out_shape"]), 1))
    for o in out:
        print(o)
    return 1 if out else 0
