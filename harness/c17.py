"""C17 — phase unwrapping.  UnwrapUF.tla.

1. TLC checks TreeConsistent / Final / Untouched / Acyclic for every Itoh field, every
   mask and EVERY merge order on small grids (bounded and periodic); a sign-flipped
   variant must be rejected.
2. TLC exports every initial state (field, mask, mask components) of the exhaustive
   instances, and simulated constructive fields on larger grids (K = 8/16).
3. Each exported case is run through the real unwrap_phase_2d_torch (reliability
   sorting) and the three clauses of the property are compared with the model's field.
"""
from __future__ import annotations

import json
import math
import os
import shutil
import tempfile

from harness.common import tlc
from harness.common.par import pmap
from harness.common.tlc import MachineryError

SPEC = os.path.join(tlc.SPECS, "unwrap")
TOL = 2e-4


def _consts(h, w, k, a, wrap, full=False, bug=False):
    return {"H": h, "W": w, "K": k, "A": a, "WrapAround": "TRUE" if wrap else "FALSE",
            "SignBug": "TRUE" if bug else "FALSE", "FullMask": "TRUE" if full else "FALSE"}


def _run_case(arg):
    """Returns None if all clauses hold, else (clause, detail)."""
    case, variant = arg
    import torch
    from quantem.core.utils.imaging_utils import unwrap_phase_2d_torch
    h, w, k = case["h"], case["w"], case["k"]
    q = 2 * math.pi / k
    dt = torch.float64 if variant % 2 == 0 else torch.float32
    f = torch.tensor(case["f"], dtype=torch.float64).reshape(h, w)
    half = k // 2
    wr = ((f + half) % k) - half
    m = torch.tensor(case["mask"], dtype=torch.bool).reshape(h, w)
    comp = torch.tensor(case["comp"]).reshape(h, w)
    mask_arg = None if (bool(m.all()) and variant % 4 < 2) else m
    phi = (wr * q).to(dt)
    try:
        out = unwrap_phase_2d_torch(phi, method="reliability-sorting", mask=mask_arg,
                                    wrap_around=bool(case["wrap"])).to(torch.float64)
        out2 = unwrap_phase_2d_torch((f * q).to(dt), method="reliability-sorting", mask=mask_arg,
                                     wrap_around=bool(case["wrap"])).to(torch.float64)
    except Exception as ex:  # noqa: BLE001
        return ("raised", f"{type(ex).__name__}: {ex}")
    # the call must not modify its inputs, and a repeated call must give the same answer
    if not torch.equal(phi, (wr * q).to(dt)) or (mask_arg is not None and not torch.equal(mask_arg, m)):
        return ("inputs-modified", "unwrap_phase_2d_torch modified its input tensors")
    again = unwrap_phase_2d_torch(phi, method="reliability-sorting", mask=mask_arg,
                                  wrap_around=bool(case["wrap"])).to(torch.float64)
    if not torch.equal(again, out):
        return ("repeat", "a second identical call returned a different result")
    if out.shape != phi.shape:
        return ("shape", str(tuple(out.shape)))
    # (a) original field up to one constant per mask component
    d = out - f * q
    for c in set(comp[m].tolist()):
        sel = (comp == c) & m
        v = d[sel]
        if float(v.max() - v.min()) > TOL:
            return ("component-constant", f"component {c}: spread {float(v.max() - v.min()):.4f} rad")
    # (b) integer multiples of 2*pi plus one constant (all pixels)
    e = (out - phi.to(torch.float64)) / (2 * math.pi)
    e = e - e.flatten()[0]
    if float((e - e.round()).abs().max()) > TOL:
        return ("integer-multiples", f"max fractional part {float((e - e.round()).abs().max()):.4f}")
    # (c) unwrapped smooth input comes back unchanged up to a single constant
    g = out2 - (f * q)
    if float(g.max() - g.min()) > TOL:
        return ("unwrapped-unchanged", f"spread {float(g.max() - g.min()):.4f} rad")
    # (d) the bright-field wrapper (masked embedding, one or two passes) obeys the same law with the caller's settings
    if variant % 3 == 0 and bool(m.any()):
        from quantem.diffractive_imaging.direct_ptycho_utils import unwrap_bf_overlap_phase_torch
        bf = torch.ones((h, w), dtype=torch.bool)
        cd = torch.polar(torch.ones(h * w, dtype=torch.float32), phi.to(torch.float32).reshape(-1))
        for two_pass in (True, False):
            try:
                res = unwrap_bf_overlap_phase_torch(cd, m.reshape(-1), bf, two_pass=two_pass,
                                                    wrap_around=bool(case["wrap"])).to(torch.float64).reshape(h, w)
            except Exception as ex:  # noqa: BLE001
                return ("wrapper-raised", f"{type(ex).__name__}: {ex}")
            dd = res - f * q
            for c in set(comp[m].tolist()):
                sel = (comp == c) & m
                v = dd[sel]
                if float(v.max() - v.min()) > max(TOL, 1e-4):
                    return ("wrapper-component-constant", f"unwrap_bf_overlap_phase_torch(two_pass={two_pass}): component {c}: "
                                                          f"spread {float(v.max() - v.min()):.4f} rad")
    return None


def _replay(rep, cases, label, procs):
    res = pmap(_run_case, [(c, i) for i, c in enumerate(cases)], procs=procs, chunk=256)
    for c, r in zip(cases, res):
        rep.add_traces(1)
        rep.add_eval(2)
        nontrivial = sum(c["mask"]) >= 2 and (max(c["f"]) - min(c["f"]) >= c["k"] // 2)
        if nontrivial:
            rep.add_distinct(c)
        if r is not None:
            key = f"C17:{r[0]}:{'wrap' if c['wrap'] else 'bounded'}"
            rep.mismatch(key, f"{label}: {r[0]} {r[1]}", {"case": c, "clause": r[0], "detail": r[1]})
    if cases:
        rep.sample({"from": label, "case": cases[len(cases) // 2]})


def _gen(rep, tmp, consts, label, cap=None, seed=0):
    g = tlc.cfg_variant(os.path.join(SPEC, "UnwrapGEN.cfg"), tmp, f"gen_{label}.cfg", consts)
    r = tlc.run_tlc("UnwrapUF", g, spec_dir=SPEC, workers=1, timeout=3000)
    tlc.expect_clean(r, f"UnwrapGEN {label}")
    cases = r.cases
    if not cases:
        raise MachineryError(f"no initial states exported for {label}")
    total = len(cases)
    if cap and len(cases) > cap:
        import random
        random.Random(seed).shuffle(cases)
        cases = cases[:cap]
    rep.notes.setdefault("exported", []).append({"instance": label, "initial_states": total,
                                                 "replayed": len(cases)})
    return cases


def _sim(rep, tmp, consts, label, num, seed):
    n = consts["H"] * consts["W"]
    g = tlc.cfg_variant(os.path.join(SPEC, "UnwrapSIM.cfg"), tmp, f"sim_{label}.cfg", consts)
    r = tlc.run_tlc("UnwrapUF", g, spec_dir=SPEC, workers=1, timeout=1200,
                    simulate=f"num={num}", depth=n + 1, seed=seed)
    if r.violated:
        raise MachineryError(f"simulation {label}: model invariant {r.violated} violated")
    seen, cases = set(), []
    for c in r.cases:
        s = json.dumps(c, sort_keys=True)
        if s not in seen:
            seen.add(s)
            cases.append(c)
    if len(cases) < num:
        raise MachineryError(f"simulation {label}: only {len(cases)} cases\n{r.stdout[-1500:]}")
    rep.notes.setdefault("exported", []).append({"instance": label + " (simulated)",
                                                 "replayed": len(cases)})
    return cases


def check(rep, tier, seed):
    quick = tier == "quick"
    rep.assume("phases are multiples of 2*pi/K (K in {4,8,16}); the margin 2*pi/K between the "
               "largest legal jump and pi makes float rounding irrelevant",
               "FFT Poisson method is outside the exactness claim and not exercised",
               "exhaustive over all merge orders in the model; the implementation is exercised on "
               "the exported initial states with its own reliability order")
    tmp = tempfile.mkdtemp(prefix="c17_")
    try:
        # 1. model checking, all merge orders
        mc = [(2, 2, 4, 3, False), (2, 2, 4, 3, True), (1, 4, 4, 5, True), (3, 1, 4, 5, False)]
        if not quick:
            mc += [(2, 3, 4, 3, False), (3, 2, 4, 3, True), (2, 2, 6, 6, False), (2, 2, 6, 6, True)]
        for (h, w, k, a, wrap) in mc:
            c = tlc.cfg_variant(os.path.join(SPEC, "UnwrapMC.cfg"), tmp, "mc.cfg",
                                _consts(h, w, k, a, wrap))
            r = tlc.run_tlc("UnwrapUF", c, spec_dir=SPEC, workers=16, timeout=3000)
            rep.add_tlc(r, f"UnwrapUF {h}x{w} K={k} A={a} wrap={wrap}: all merge orders")
            tlc.expect_clean(r, "UnwrapMC")
        rn = tlc.run_tlc("UnwrapUF", "UnwrapNEG.cfg", spec_dir=SPEC, workers=16, timeout=600)
        tlc.expect_violation(rn, "UnwrapNEG (offset sign)", "TreeConsistent")
        rep.note("negative_controls", ["UnwrapNEG: offset sign flipped -> TreeConsistent violated"])

        # 2/3. export initial states and replay
        procs = 16
        cap = 1500 if quick else None
        # (periodic grids need >= 3 rows / columns for the seam to be an edge of its own: on 2 rows the row seam
        # duplicates the interior edge, on 1 row it is a self-loop)
        gens = [(2, 2, 4, 3, False, cap), (2, 2, 4, 3, True, cap), (1, 4, 4, 5, True, cap),
                (3, 1, 4, 5, False, cap), (3, 2, 4, 3, True, cap), (1, 3, 4, 5, True, cap), (3, 1, 4, 5, True, cap)]
        if not quick:
            gens += [(2, 3, 4, 3, False, None), (2, 3, 4, 3, True, None), (2, 2, 6, 6, True, None)]
        for (h, w, k, a, wrap, cap) in gens:
            label = f"{h}x{w}K{k}A{a}{'wrap' if wrap else 'bounded'}"
            cases = _gen(rep, tmp, _consts(h, w, k, a, wrap), label, cap, seed)
            _replay(rep, cases, label, procs)
        sims = [(3, 4, 8, 15, False, False, 60), (4, 4, 8, 12, True, True, 40),
                (5, 6, 16, 40, False, True, 30), (4, 3, 8, 12, True, False, 120), (3, 5, 8, 12, True, False, 80)]
        if not quick:
            sims = [(3, 4, 8, 15, False, False, 1500), (4, 4, 8, 12, True, True, 1500),
                    (4, 4, 8, 12, True, False, 1000), (5, 6, 16, 40, False, True, 800),
                    (6, 5, 16, 40, True, False, 500), (8, 8, 16, 60, False, True, 200)]
        for i, (h, w, k, a, wrap, full, num) in enumerate(sims):
            label = f"sim{h}x{w}K{k}A{a}{'wrap' if wrap else 'bounded'}{'full' if full else 'free'}"
            cases = _sim(rep, tmp, _consts(h, w, k, a, wrap, full), label, num, seed + 11 + i)
            _replay(rep, cases, label, procs)
    finally:
        shutil.rmtree(tmp, ignore_errors=True)
    rule = ("cases are the initial states of UnwrapUF exported by TLC (exhaustive small instances; "
            "simulated constructive fields on larger grids); non-trivial = at least two masked "
            "pixels and a field range >= K/2 (so at least one wrap can occur); distinct by "
            "(field, mask, shape, wrap)")
    return rule, False


def replay(path):
    body = json.load(open(path))
    r = _run_case((body["replay"]["case"], 0))
    print("case:", json.dumps(body["replay"]["case"]))
    print("result:", r)
    return 0 if r is None else 1
