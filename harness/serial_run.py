"""Worker for C01 / C14: one abstract case -> real save/load cycles -> comparison with the
model's expected value."""
from __future__ import annotations

import contextlib
import io
import os
import shutil
import tempfile
from pathlib import Path

CFGS = [("zip", 4), ("dir", None), ("zip", None), ("dir", 0), ("zip", 9), ("dir", 4), ("zip", 0),
        ("dir", 9), ("zip", 1), ("dir", 2), ("zip", 3), ("dir", 5), ("zip", 6), ("dir", 7),
        ("zip", 8), ("dir", 1), ("zip", 2), ("dir", 3), ("zip", 5), ("dir", 6), ("zip", 7), ("dir", 8)]


def _target(tmp, store, i, as_path):
    p = os.path.join(tmp, f"t{i}.zip" if store == "zip" else f"t{i}")
    return Path(p) if as_path else p


def run_case(arg):
    """arg = (case, idx, ncfg).  Returns list of (key, message) mismatches (empty = ok)."""
    case, idx, ncfg = arg
    from quantem.core.io.serialize import load
    from harness import serial_common as sc
    out = []
    types = sc.type_objects()
    skN = list(case["skN"])
    skT = [types[t] for t in case["skT"]]
    skip = skN + skT
    exp = case["expect"]
    tmp = tempfile.mkdtemp(prefix="vser_")
    sink = io.StringIO()
    try:
        for j in range(ncfg):
            store, comp = CFGS[(idx + j * 7) % len(CFGS)]
            as_path = (idx + j) % 2 == 1
            mode = "o" if (idx + j) % 3 == 0 else "w"
            var = idx + 13 * j
            tag = f"{store}:c{comp}:{'Path' if as_path else 'str'}:{mode}"

            def fail(kind, msg):
                out.append((kind, f"[{tag} var={var}] {msg}"))

            try:
                obj = sc.inst(case["o"], var)
            except Exception as ex:  # noqa: BLE001
                raise RuntimeError(f"harness cannot instantiate case: {ex}") from ex
            t1 = _target(tmp, store, 2 * j, as_path)
            skip_arg = list(skip)
            try:
                with contextlib.redirect_stdout(sink):
                    obj.save(t1, mode=mode, store=store, skip=skip_arg, compression_level=comp)
            except Exception as ex:  # noqa: BLE001
                fail("save-raised", f"save raised {type(ex).__name__}: {str(ex)[:150]}")
                continue
            # save() reads its object: neither the object graph nor the caller's skip list may change
            try:
                untouched = sc.deep_equal(obj, sc.inst(case["o"], var)) and skip_arg == list(skip)
            except Exception:  # noqa: BLE001
                untouched = True
            if not untouched:
                fail("source-modified", "save() modified the object it was given (or the caller's skip list)")
            try:
                with contextlib.redirect_stdout(sink):
                    got = load(t1)
            except Exception as ex:  # noqa: BLE001
                fail("load-raised", f"load raised {type(ex).__name__}: {str(ex)[:150]}")
                continue
            try:
                sc.same(exp, got, var)
            except sc.Diff as d:
                fail("roundtrip" if not skip else "skip-roundtrip", str(d))
                continue
            # the source object must not be modified by save
            # fixed point: save the loaded object again and reload
            t2 = _target(tmp, store, 2 * j + 1, not as_path)
            try:
                with contextlib.redirect_stdout(sink):
                    got.save(t2, mode="w", store=store, compression_level=comp)
                    got2 = load(t2)
                sc.same(exp, got2, var)
            except sc.Diff as d:
                fail("fixed-point", str(d))
            except Exception as ex:  # noqa: BLE001
                fail("fixed-point", f"re-save/re-load raised {type(ex).__name__}: {str(ex)[:150]}")
            if skip:
                # Persisted: repeating the skip lists at load changes nothing
                try:
                    with contextlib.redirect_stdout(sink):
                        got3 = load(t1, skip=skip)
                    sc.same(exp, got3, var)
                except sc.Diff as d:
                    fail("persisted", str(d))
                except Exception as ex:  # noqa: BLE001
                    fail("persisted", f"load(skip=...) raised {type(ex).__name__}: {str(ex)[:150]}")
                # SaveEqLoad (names only): skipping at load time = skipping at save time
                if not skT:
                    t3 = _target(tmp, store, 100 + j, as_path)
                    try:
                        with contextlib.redirect_stdout(sink):
                            sc.inst(case["o"], var).save(t3, store=store, compression_level=comp)
                            got4 = load(t3, skip=skN)
                        sc.same(exp, got4, var)
                    except sc.Diff as d:
                        fail("save-eq-load", str(d))
                    except Exception as ex:  # noqa: BLE001
                        fail("save-eq-load", f"raised {type(ex).__name__}: {str(ex)[:150]}")
            # load-time skipping of further names on the saved file (model law LoadSkipBoth)
            for s2 in (["a"], ["c"], ["b", "zz"]):
                try:
                    with contextlib.redirect_stdout(sink):
                        got5 = load(t1, skip=list(s2))
                    sc.same(sc.strip_abs(exp, set(s2)), got5, var)
                except sc.Diff as d:
                    fail("load-skip", f"skip={s2}: {d}")
                except Exception as ex:  # noqa: BLE001
                    fail("load-skip", f"skip={s2}: raised {type(ex).__name__}: {str(ex)[:150]}")
                if not skip:
                    break
    finally:
        shutil.rmtree(tmp, ignore_errors=True)
    return out
