"""C20 — display normalisation.  NormOrder.tla (S->C, ordinal / exact-rational model).

TLC checks Range, Monotone, EndPoints and NaNMasked over every short array of small integers and
NaN / +inf / -inf tokens (at least two distinct finite values) and every interval configuration
with lo < hi, in exact rationals, and rejects a variant that does not clip below the lower limit.
Every exported case is replayed into CustomNormalization for every stretch type: masked pattern,
0 / 1 / interior classification and the ORDER of the outputs must be the model's; with the linear
stretch the values must be the model's rationals.  Stretch o inverse = id is checked on a rational
grid for model-enumerated parameters; presets are resolved and run on the same cases.
"""
from __future__ import annotations

import json
import os
import random
import warnings

import numpy as np

from harness.common import tlc
from harness.common.par import pmap
from harness.common.tlc import MachineryError

SPEC = os.path.join(tlc.SPECS, "norm")
NAN, PINF, NINF = 100, 101, 102
STRETCHES = [("linear", {}), ("power", {"power": 2.0}), ("power", {"power": 0.5}), ("power", {"power": 3.7}),
             ("logarithmic", {"logarithmic_index": 1000.0}), ("logarithmic", {"logarithmic_index": 3.0}),
             ("asinh", {"asinh_linear_range": 0.1}), ("asinh", {"asinh_linear_range": 2.5})]


def rat(r):
    return None if r[1] == 0 else r[0] / r[1]


# (dtype, affine embedding a*x + b): the embeddings are the model's Affs (AffineInvariant) and the identity; the
# narrow integer ones make the data span more than the dtype's positive range
EMB_INT = [("float64", (1, 0)), ("float32", (1, 0)), ("int32", (1, 0)), ("int64", (1, 0)), ("int8", (50, -100)),
           ("int16", (15000, -30000)), ("uint8", (60, 0)), ("uint16", (15000, 0)), ("float64", (3, 7)), ("int32", (3, 7)),
           ("float32", (50, -100)), ("int64", (15000, -30000)), ("float64", (1024, 0)), ("float64", (2.0 ** -30, 0)),
           ("float32", (2.0 ** -30, 0)), ("float64", (2.0 ** -44, 0)), ("float64", (2.0 ** 40, 0))]
EMB_TOK = [("float64", (1, 0)), ("float32", (1, 0)), ("float64", (3, 7)), ("float32", (50, -100)), ("float64", (15000, -30000)),
           ("float64", (2.0 ** -30, 0)), ("float32", (2.0 ** -30, 0)), ("float64", (2.0 ** 40, 0))]


def kwargs_of(cfg, af=(1, 0), as_int=False):
    """as_int: integral limits / centres / half ranges are passed as Python ints (users write vcenter=128)."""
    a, b = af
    t = cfg["t"]

    def num(v):
        return int(v) if (as_int and v is not None and float(v).is_integer()) else v

    def pos(r):                      # a position (limit, centre) in the embedded unit
        v = rat(r)
        return None if v is None else num(a * v + b)
    if t == "manual":
        return dict(interval_type="manual", vmin=pos(cfg["lo"]), vmax=pos(cfg["hi"]))
    if t == "centered":
        h = rat(cfg["h2"])
        return dict(interval_type="centered", vcenter=pos(cfg["c"]), half_range=None if h is None else num(a * h))
    return dict(interval_type="quantile", lower_quantile=rat(cfg["ql"]), upper_quantile=rat(cfg["qu"]))


def run_case(arg):
    case, idx, quick = arg
    warnings.filterwarnings("ignore")
    from quantem.core.visualization.custom_normalizations import (
        NORMALIZATION_PRESETS, CustomNormalization, _resolve_normalization)
    out = []
    has_tok = any(x >= 100 for x in case["data"])
    emb = (EMB_TOK if has_tok else EMB_INT)
    dtn, af = emb[idx % len(emb)]
    dt = np.dtype(dtn)
    vals = [float("nan") if x == NAN else float("inf") if x == PINF else float("-inf") if x == NINF else float(af[0] * x + af[1])
            for x in case["data"]]
    want_u = [rat(o["u"]) for o in case["out"]]
    want_mask = [o["k"] == "masked" for o in case["out"]]
    kw = kwargs_of(case["cfg"], af, as_int=bool((idx // len(emb)) % 2))
    tag = f"data={case['data']} as {dtn} {af[0]}*x+{af[1]} cfg={case['cfg']['t']} {kw}"
    shape = (len(vals),) if idx % 3 else ((2, len(vals) // 2) if len(vals) % 2 == 0 else (len(vals), 1))

    def check_out(res, stretch, how, linear):
        m = np.ma.getmaskarray(res).ravel()
        d = np.ma.getdata(res).ravel().astype(float)
        if list(m) != want_mask:
            return f"{how} {stretch}: mask {list(m)} != model {want_mask} (a NaN became a number or a number was masked)"
        fin = [i for i in range(len(vals)) if not want_mask[i]]
        for i in fin:
            if not (0.0 <= d[i] <= 1.0):
                return f"{how} {stretch}: output {d[i]} of element {i} outside [0, 1]"
            if want_u[i] == 0 and abs(d[i]) > 1e-9:
                return f"{how} {stretch}: element {i} should map to 0, got {d[i]}"
            if want_u[i] == 1 and abs(d[i] - 1) > 1e-6:
                return f"{how} {stretch}: element {i} should map to 1, got {d[i]}"
            if linear and abs(d[i] - want_u[i]) > 2e-6:
                return f"{how} {stretch}: element {i} = {d[i]} != exact {want_u[i]}"
        for i in fin:
            for j in fin:
                if want_u[i] <= want_u[j] and d[i] > d[j] + 1e-7:
                    return f"{how} {stretch}: not monotone: model u {want_u[i]} <= {want_u[j]} but outputs {d[i]} > {d[j]}"
                if want_u[i] < want_u[j] and 0 < want_u[i] and want_u[j] < 1 and not d[i] < d[j]:
                    return f"{how} {stretch}: order of interior values not preserved"
        return None
    try:
        arr0 = np.array(vals, dtype=float).astype(dt).reshape(shape)
        for (st, skw) in (STRETCHES if not quick else [STRETCHES[0], STRETCHES[1 + idx % 7]]):
            # limits taken at call time, and fixed from `data=` at construction
            for how in ("call-time", "data="):
                arr = arr0.copy()
                norm = CustomNormalization(stretch_type=st, **kw, **skw, **({"data": arr.copy()} if how == "data=" else {}))
                if how == "call-time" and case.get("warm"):
                    # the model's `warm` array: the same object is first applied to ANOTHER array (same unit / dtype);
                    # limits taken at call time must then be those of the current array
                    wv = np.array([float(af[0] * x + af[1]) for x in case["warm"]], dtype=float).astype(dt)
                    norm(wv)
                res = norm(arr)
                if not np.array_equal(arr, arr0, equal_nan=True):
                    out.append(("C20:inputs-modified", f"{tag}: {how} {st}: the normalisation modified the caller's array"))
                    break
                msg = check_out(res, f"{st}{skw}", how, st == "linear")
                if msg:
                    out.append((f"C20:{st}:{'mask' if 'mask' in msg else 'order' if 'monotone' in msg or 'order' in msg else 'value'}", f"{tag}: {msg}"))
                    break
                if how == "data=":
                    lo, hi = af[0] * rat(case["lo"]) + af[1], af[0] * rat(case["hi"]) + af[1]
                    if abs(float(norm.vmin) - lo) > 1e-6 * (1 + abs(lo)) or abs(float(norm.vmax) - hi) > 1e-6 * (1 + abs(hi)):
                        out.append(("C20:limits", f"{tag}: limits ({norm.vmin}, {norm.vmax}) != exact ({lo}, {hi})"))
                        break
        # presets whose interval the model can predict on this data: they must behave like their configuration
        if idx % 5 == 0:
            for name in NORMALIZATION_PRESETS:
                c = _resolve_normalization(name)
                n1 = CustomNormalization(**{k: getattr(c, k) for k in c.__dataclass_fields__})
                r1 = n1(arr0.copy())
                m = np.ma.getmaskarray(r1).ravel()
                d = np.ma.getdata(r1).ravel().astype(float)
                if list(m) != want_mask:
                    out.append((f"C20:preset:{name}:mask", f"{tag}: preset {name}: mask {list(m)} != {want_mask}"))
                    break
                fin = [i for i in range(len(vals)) if not want_mask[i]]
                if any(not (0 <= d[i] <= 1) for i in fin):
                    out.append((f"C20:preset:{name}:range", f"{tag}: preset {name}: output outside [0, 1]"))
                    break
                for i in fin:
                    for j in fin:
                        # monotone in the data value
                        if vals[i] <= vals[j] and d[i] > d[j] + 1e-7:
                            out.append((f"C20:preset:{name}:order", f"{tag}: preset {name}: not monotone"))
                            break
    except Exception as ex:  # noqa: BLE001
        out.append(("C20:raised", f"{tag}: {type(ex).__name__}: {str(ex)[:200]}"))
    return out


def stretch_inverses():
    from quantem.core.visualization.custom_normalizations import (
        HyperbolicSineStretch, InverseHyperbolicSineStretch, InverseLogarithmicStretch, LinearStretch,
        LogarithmicStretch, PowerLawStretch)
    out = []
    grid = np.array([k / 40 for k in range(41)])
    objs = [LinearStretch()] + [PowerLawStretch(p) for p in (0.25, 0.5, 2.0, 3.7)] + \
           [LogarithmicStretch(a) for a in (0.5, 3.0, 1000.0)] + [InverseLogarithmicStretch(a) for a in (0.5, 3.0, 1000.0)] + \
           [InverseHyperbolicSineStretch(a) for a in (0.05, 0.1, 2.5)] + [HyperbolicSineStretch(a) for a in (0.05, 0.1, 2.5)]
    for s in objs:
        inv = s.inverse
        y = np.asarray(s(grid.copy()), float)
        back = np.asarray(inv(y.copy()), float)
        name = f"{type(s).__name__}{s}"
        if np.abs(back - grid).max() > 1e-9:
            out.append((f"C20:inverse:{type(s).__name__}", f"{name}: stretch o inverse deviates from the identity by {np.abs(back - grid).max():.3g}"))
        if abs(y[0]) > 1e-12 or abs(y[-1] - 1) > 1e-12 or np.any(np.diff(y) <= 0):
            out.append((f"C20:bijection:{type(s).__name__}", f"{name}: not a strictly increasing bijection of [0,1] fixing 0 and 1"))
        if not np.array_equal(grid, np.array([k / 40 for k in range(41)])):
            out.append((f"C20:inputs-modified:{type(s).__name__}", f"{name}: modified its input with copy=True"))
    return out


def check(rep, tier, seed):
    quick = tier == "quick"
    rep.assume("arrays with at least two distinct finite values and intervals with lo < hi (as the property states)",
               "a stretch is abstracted in the model to a strictly increasing bijection of [0,1]; that each concrete "
               "stretch IS one, and that stretch o inverse = id, is checked numerically on a 41-point grid",
               "data values are small integers (and their affine images in narrow integer dtypes) so that quantile limits "
               "are exact rationals")
    r = tlc.run_tlc("NormOrder", "NormMC.cfg", spec_dir=SPEC, workers=16, timeout=900)
    rep.add_tlc(r, "NormOrder: Range / Monotone / EndPoints / NaNMasked (arrays up to length 4)")
    tlc.expect_clean(r, "NormMC")
    rn = tlc.run_tlc("NormOrder", "NormNEG.cfg", spec_dir=SPEC, workers=16, timeout=900)
    tlc.expect_violation(rn, "NormNEG (no clipping below the lower limit)", "Range")
    rf = tlc.run_tlc("NormOrder", "NormNEG_frozen.cfg", spec_dir=SPEC, workers=16, timeout=900)
    tlc.expect_violation(rf, "NormNEG_frozen (limits of an earlier array kept)", "LimitsOfCurrentData")
    rep.note("negative_controls", ["NormNEG: values below the lower limit are not clipped",
                                   "NormNEG_frozen: data-derived limits frozen by the first array the object saw"])
    import tempfile, shutil
    tmp = tempfile.mkdtemp(prefix="c20_")
    try:
        g = tlc.cfg_variant(os.path.join(SPEC, "NormGEN.cfg"), tmp, "gen.cfg", {"MaxLen": 3 if quick else 4})
        rg = tlc.run_tlc("NormOrder", g, spec_dir=SPEC, workers=1, timeout=1800)
        tlc.expect_clean(rg, "NormGEN")
        cases = rg.cases
    finally:
        shutil.rmtree(tmp, ignore_errors=True)
    if not cases:
        raise MachineryError("no cases exported")
    total = len(cases)
    random.Random(seed).shuffle(cases)
    cases = cases[: (1200 if quick else 20000)]
    rep.note("cases", {"exported": total, "replayed": len(cases)})
    rep.sample({"case": cases[0]})
    res = pmap(run_case, [(c, i, quick) for i, c in enumerate(cases)], procs=16, chunk=32)
    for c, probs in zip(cases, res):
        rep.add_traces(1)
        rep.add_eval(1)
        rep.add_distinct([c["data"], c["cfg"]])
        seen = set()
        for key, msg in probs:
            if key not in seen:
                seen.add(key)
                rep.mismatch(key, msg, {"case": c, "message": msg})
    for key, msg in stretch_inverses():
        rep.mismatch(key, msg, {"message": msg})
    rule = ("cases are the (array, interval configuration) initial states of NormOrder exported by TLC with exact "
            "limits and per-element outputs; each is run for 2 (quick) / 8 stretch configurations, with limits taken "
            "at call time and from data=, stored as float64/float32/int8/int16/int32/int64/uint8/uint16 through the model's affine "
            "embeddings (narrow integer ranges exceed the dtype's positive range), 1-D/2-D shapes; presets on every fifth "
            "case; distinct by (array, configuration)")
    return rule, False


def replay(path):
    body = json.load(open(path))
    rp = body["replay"]
    out = run_case((rp["case"], 0, False)) if "case" in rp else stretch_inverses()
    for o in out:
        print(o)
    return 1 if out else 0
