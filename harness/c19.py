"""C19 — configuration store.  ConfigStore.tla / ConfigMC.tla / ConfigTrace.tla.

1. TLC model-checks the design properties on the bounded instance (ConfigMC) and
   rejects three wrong variants (negative controls).
2. TLC generates operation scripts (exhaustive to depth D; simulated long walks).
3. The driver executes every script on the real quantem.core.config functions with a
   private config/defaults pair and records, after every call, the full observed
   configuration and the results of get() on all spelled paths.
4. ConfigTrace.tla validates the recorded executions in batches with TLC.
"""
from __future__ import annotations

import json
import os
import random
import shutil
import tempfile

from harness.common import tlc
from harness.common.tlc import MachineryError

SPEC = os.path.join(tlc.SPECS, "config")

SPELLED_GETS = [["p-q"], ["p_q"], ["r"], ["device"], ["m"], ["m", "x-y"], ["m", "x_y"], ["m", "z"],
                ["m", "n"], ["m", "n", "w-v"], ["m", "n", "w_v"], ["m", "q"], ["zz"], ["g-h"], ["g_h", "z"], ["g-h", "r"]]
BAD_DEVICES = ["cuda", "cuda:0", "cuda:7", "gpu", "GPU", "mps", "tpu", "", 0, 3, -1, 1.5,
               "cuda:x", "xpu:0"]
_SENT = object()


# ----------------------------------------------------------------- codecs
def nested_from_pairs(pairs):
    """pairs (relative, spelled) -> python value (dict or leaf string)."""
    root = [p for p in pairs if p["p"] == []]
    if not root:
        raise MachineryError(f"pairs without root: {pairs}")
    if root[0]["v"] != "MAP":
        return root[0]["v"]
    d: dict = {}
    for p in sorted((p for p in pairs if p["p"]), key=lambda x: len(x["p"])):
        cur = d
        for k in p["p"][:-1]:
            cur = cur[k]
        cur[p["p"][-1]] = {} if p["v"] == "MAP" else p["v"]
    return d


def pairs_from_value(v, prefix=None):
    prefix = prefix or []
    if isinstance(v, dict):
        out = [{"p": list(prefix), "v": "MAP"}]
        for k, x in v.items():
            out += pairs_from_value(x, prefix + [str(k)])
        return out
    return [{"p": list(prefix), "v": v if isinstance(v, str) else repr(v)}]


# ----------------------------------------------------------------- driver
class Driver:
    def __init__(self, rng: random.Random, files_dir: str):
        from quantem.core import config as qc
        self.qc = qc
        self.cfg: dict = {}
        self.dfl: list = []
        self.cms: list = []
        self.rng = rng
        self.files_dir = files_dir

    def observe(self):
        gets = []
        for sp in SPELLED_GETS:
            key = ".".join(sp)
            if self.rng.random() < 0.5:
                res = self.qc.get(key, default=_SENT, config=self.cfg)
            else:
                try:
                    res = self.qc.get(key, config=self.cfg)
                except (KeyError, TypeError, IndexError):
                    res = _SENT
            r = [{"p": [], "v": "MISSING"}] if res is _SENT else pairs_from_value(res)
            gets.append({"p": sp, "r": r})
        return pairs_from_value(self.cfg), gets

    def _call_set(self, assigns):
        items = [(".".join(a["p"]), nested_from_pairs(a["v"])) for a in assigns]
        form = self.rng.choice(["mapping", "kwargs", "mixed"])
        kw_ok = all("-" not in k for k, _ in items)
        if form == "kwargs" and kw_ok:
            return self.qc.set(config=self.cfg, **{k.replace(".", "__"): v for k, v in items})
        if form == "mixed" and len(items) > 1 and "-" not in items[-1][0]:
            k, v = items[-1]
            return self.qc.set(dict(items[:-1]), config=self.cfg, **{k.replace(".", "__"): v})
        if len({k for k, _ in items}) != len(items):
            # same spelled key twice cannot be one mapping: mapping + kwargs, or two calls
            raise MachineryError("duplicate spelled key in one call")
        return self.qc.set(dict(items), config=self.cfg)

    def step(self, e):
        op = e["op"]
        raised = False
        err = None
        try:
            if op == "set":
                self._call_set(e["as"])
            elif op == "enter":
                cm = self._call_set(e["as"])
                cm.__enter__()
                self.cms.append(cm)
            elif op == "exit":
                cm = self.cms.pop()
                cm.__exit__(None, None, None)
            elif op == "update_defaults":
                self.qc.update_defaults(nested_from_pairs(e["new"]), config=self.cfg,
                                        defaults=self.dfl)
            elif op == "refresh":
                self.qc.refresh(config=self.cfg, defaults=self.dfl, path=self.files_dir)
            elif op == "bad_device":
                bad = self.rng.choice(BAD_DEVICES)
                form = self.rng.choice(["map", "kw", "map2", "upd"])
                e = dict(e, bad=repr(bad), form=form)
                if form == "map":
                    self.qc.set({"device": bad}, config=self.cfg)
                elif form == "kw":
                    self.qc.set(config=self.cfg, device=bad)
                elif form == "map2":
                    self.qc.set({"device": bad, "r": "v1"}, config=self.cfg)
                else:
                    self.qc.update_defaults({"device": bad}, config=self.cfg, defaults=self.dfl)
            else:
                raise MachineryError(f"unknown op {op}")
        except MachineryError:
            raise
        except Exception as ex:  # noqa: BLE001 - any exception of the library is an observation
            raised = True
            err = f"{type(ex).__name__}: {ex}"[:200]
        state, gets = self.observe()
        out = {"op": op, "as": e.get("as", []), "new": e.get("new", []), "raised": raised,
               "state": state, "gets": gets}
        meta = {"err": err, "bad": e.get("bad"), "form": e.get("form")}
        return out, meta


def run_script(script, seed, files_dir):
    d = Driver(random.Random(seed), files_dir)
    trace, metas = [], []
    for e in script:
        ev, meta = d.step(e)
        trace.append(ev)
        metas.append(meta)
    return trace, metas


# ----------------------------------------------------------------- check
def _mc(rep, cfgname, label, workers=16, timeout=1500):
    r = tlc.run_tlc("ConfigMC", cfgname, spec_dir=SPEC, workers=workers, timeout=timeout)
    rep.add_tlc(r, label)
    return r


def _validate(rep, traces, metas, files_pairs, label):
    """Validate a batch; report each rejected trace."""
    if not traces:
        return
    r, prog = tlc.validate_traces("ConfigTrace", "ConfigTrace.cfg", SPEC,
                                  {"files": files_pairs, "traces": traces})
    rep.add_tlc(r, f"trace-validation {label}")
    if len(prog) != len(traces):
        raise MachineryError(f"progress vector length {len(prog)} != {len(traces)}")
    for i, (t, p) in enumerate(zip(traces, prog)):
        rep.add_traces(1)
        rep.add_eval(len(t))
        if p != len(t) + 1:
            k = max(p, 1) - 1            # index of first unmatched event
            ev = t[k] if k < len(t) else None
            key = f"C19:{ev['op']}:{'raised' if ev['raised'] else 'state'}" if ev else "C19:?"
            rep.mismatch(key, f"trace rejected by ConfigTrace at event {k + 1}/{len(t)} "
                              f"({ev['op'] if ev else '?'}; {metas[i][k] if ev else ''})",
                         {"files": files_pairs, "trace": t, "first_unmatched_event": k + 1,
                          "meta": metas[i]})
    return prog


def _self_test(rep, trace, files_pairs):
    """Binding self-test: corrupt one get result of an accepted trace; it must be rejected
    exactly there."""
    bad = json.loads(json.dumps(trace))
    k = len(bad) - 1
    g = bad[k]["gets"][0]
    g["r"] = [{"p": [], "v": "v3" if g["r"][0]["v"] != "v3" else "v1"}]
    r, prog = tlc.validate_traces("ConfigTrace", "ConfigTrace.cfg", SPEC,
                                  {"files": files_pairs, "traces": [trace, bad]})
    if prog[0] != len(trace) + 1 or prog[1] != k + 1:
        raise MachineryError(f"binding self-test failed: progress {prog}, expected "
                             f"[{len(trace) + 1}, {k + 1}]")
    rep.note("binding_self_test", "corrupted get result rejected at the corrupted event")


def check(rep, tier, seed):
    quick = tier == "quick"
    rep.assume("key kinds (scalar vs map) are consistent across writers; assignments through a "
               "scalar are not generated", "no CUDA/MPS device in the sandbox: device requests "
               "other than cpu are exercised for rejection only",
               "private config/defaults passed through the public parameters; config files read "
               "from a temporary directory")
    # 1. design model + negative controls
    r = _mc(rep, "ConfigMC_quick.cfg", "ConfigMC design properties (depth 4, incl. the two-spelling group)")
    tlc.expect_clean(r, "ConfigMC_quick")
    if not quick:
        r5 = _mc(rep, "ConfigMC.cfg", "ConfigMC design properties (depth 5, without the two-spelling group)", timeout=4000)
        tlc.expect_clean(r5, "ConfigMC")
    for neg, prop in (("ConfigNEG_exit.cfg", "WithRestores"), ("ConfigNEG_upd.cfg", "DefaultsRespectUser"),
                      ("ConfigNEG_graft.cfg", "SiblingsKept")):
        rn = tlc.run_tlc("ConfigMC", neg, spec_dir=SPEC, workers=8, timeout=600)
        tlc.expect_violation(rn, neg, prop)
    rep.note("negative_controls", ["ConfigNEG_exit", "ConfigNEG_upd", "ConfigNEG_graft"])

    tmp = tempfile.mkdtemp(prefix="c19_")
    try:
        empty_dir = os.path.join(tmp, "nofiles")
        os.makedirs(empty_dir)
        # 2. scripts: exhaustive
        depth = 2 if quick else 3
        gcfg = tlc.cfg_variant(os.path.join(SPEC, "ConfigGEN.cfg"), tmp, "gen.cfg",
                               {"MaxLen": depth})
        g = tlc.run_tlc("ConfigMC", gcfg, spec_dir=SPEC, workers=1, timeout=3000)
        tlc.expect_clean(g, "ConfigGEN")
        scripts = g.cases
        if not scripts:
            raise MachineryError("no scripts generated")
        rep.note("exhaustive_scripts", {"depth": depth, "count": len(scripts)})
        # focused three-step scripts composed from the model's own events: defaults registered, a value set, refresh
        # (every default layer x every single assignment), so that "refresh restores exactly the accumulated
        # defaults" is exercised for every (default path, set path) pair also in the quick tier
        uniq = {}
        for sc in scripts:
            for e in sc:
                uniq.setdefault(json.dumps(e, sort_keys=True), e)
        evs = list(uniq.values())
        U = [e for e in evs if e["op"] == "update_defaults"]
        S = [e for e in evs if e["op"] == "set" and len(e["as"]) == 1]
        R = [e for e in evs if e["op"] == "refresh"][:1]
        focused = [[u, s_] + R for u in U for s_ in S] if R else []
        focused += [[u, s_] + R + [u2] + R for u in U[:3] for s_ in S[::3] for u2 in U[-2:]] if R else []
        rep.note("focused_scripts", len(focused))
        scripts = scripts + focused
        # simulated long walks
        nsim = 150 if quick else 1500
        scfg = tlc.cfg_variant(os.path.join(SPEC, "ConfigGEN.cfg"), tmp, "sim.cfg",
                               {"MaxLen": 30, "Rich": "TRUE", "MaxStack": 3},
                               drop_prefixes=("CONSTRAINT",))
        s = tlc.run_tlc("ConfigMC", scfg, spec_dir=SPEC, workers=1, timeout=1200,
                        simulate=f"num={nsim}", depth=31, seed=seed + 1)
        walks = s.cases
        if len(walks) < nsim // 2:
            raise MachineryError(f"simulation produced only {len(walks)} walks\n{s.stdout[-1500:]}")
        rep.note("simulated_walks", {"length": 30, "count": len(walks)})

        # 3. execute on the real code
        files_pairs = [{"p": [], "v": "MAP"}]
        batch, metas = [], []
        for i, sc in enumerate(scripts + walks):
            t, m = run_script(sc, seed * 1000003 + i, empty_dir)
            batch.append(t)
            metas.append(m)
            rep.add_distinct([(e["op"], e["as"], e["new"]) for e in sc])
        rep.sample({"script": scripts[len(scripts) // 2], "recorded_trace_first_event":
                    batch[len(scripts) // 2][0]})
        rep.sample({"walk_ops": [e["op"] for e in walks[0]]})
        # 4. validate in chunks
        CH = 1500
        for a in range(0, len(batch), CH):
            _validate(rep, batch[a:a + CH], metas[a:a + CH], files_pairs, f"chunk{a // CH}")

        # files layer: refresh = defaults overlaid with config files
        fdir = os.path.join(tmp, "files")
        os.makedirs(fdir)
        with open(os.path.join(fdir, "a.yaml"), "w") as f:
            f.write("p-q: v3\nm:\n  z: v2\n")
        files_pairs2 = [{"p": [], "v": "MAP"}, {"p": ["p-q"], "v": "v3"}, {"p": ["m"], "v": "MAP"},
                        {"p": ["m", "z"], "v": "v2"}]
        sub = walks[: (40 if quick else 400)]
        b2, m2 = [], []
        for i, sc in enumerate(sub):
            t, m = run_script(sc, seed * 7919 + i, fdir)
            b2.append(t)
            m2.append(m)
        _validate(rep, b2, m2, files_pairs2, "files-layer")

        # binding self-test on an accepted trace
        if rep.violations == 0 and not rep.known_hits:
            _self_test(rep, batch[0], files_pairs)
    finally:
        shutil.rmtree(tmp, ignore_errors=True)
    rule = ("scripts are generated by TLC from ConfigMC (exhaustive to the stated depth over the "
            "operation alphabet + seeded simulation of 30-step walks); each is executed on the real "
            "config functions and the recorded trace validated against ConfigStore by TLC; a case "
            "is distinct by its operation sequence with arguments")
    return rule, False


def replay(path):
    body = json.load(open(path))
    rp = body["replay"]
    r, prog = tlc.validate_traces("ConfigTrace", "ConfigTrace.cfg", SPEC,
                                  {"files": rp["files"], "traces": [rp["trace"]]})
    print("recorded trace re-validated: progress", prog, "of", len(rp["trace"]) + 1)
    k = rp["first_unmatched_event"] - 1
    print("first unmatched event:", json.dumps(rp["trace"][k])[:1500])
    return 0 if prog[0] == len(rp["trace"]) + 1 else 1
