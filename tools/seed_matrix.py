#!/usr/bin/env python3
"""Runs every stored seeded change (seeded/<id>/patch.diff) against the quick check of its property, in a scratch
worktree of /repo's HEAD (never /repo itself), and records what fired in seeded/RESULTS.json and in each
seed's meta.json (detected_by).  usage: tools/seed_matrix.py [seed-id ...]"""
import json
import os
import re
import shutil
import subprocess
import sys
import tempfile
import time

VERIF = os.path.dirname(os.path.dirname(os.path.abspath(__file__)))
SEEDED = os.path.join(VERIF, "seeded")


def run_seed(sid):
    pid = sid.split("-")[0]
    patch = os.path.join(SEEDED, sid, "patch.diff")
    wt = tempfile.mkdtemp(prefix=f"sm_{sid}_", dir="/tmp")
    out = tempfile.mkdtemp(prefix=f"smo_{sid}_", dir="/tmp")
    os.rmdir(wt)
    res = {"seed": sid, "check": pid}
    try:
        subprocess.run(["git", "-C", "/repo", "worktree", "add", "-q", "--detach", wt, "HEAD"], check=True)
        ap = subprocess.run(["git", "apply", patch], cwd=wt, capture_output=True, text=True)
        if ap.returncode:
            res.update(status="patch-does-not-apply", detail=ap.stderr[:300])
            return res
        os.makedirs(os.path.join(out, "evidence"))
        os.makedirs(os.path.join(out, "replays"))
        env = dict(os.environ, PYTHONPATH=os.path.join(wt, "src"), VERIF_OUT=out)
        t0 = time.time()
        p = subprocess.run(["./check", pid, "--tier", "quick"], cwd=VERIF, env=env, capture_output=True, text=True, timeout=3600)
        keys = {}
        for m in re.finditer(r"^\s*key=(\S+)", p.stdout, re.M):
            keys[m.group(1)] = keys.get(m.group(1), 0) + 1
        first = re.search(r"^\s*key=\S+ :: (.*)$", p.stdout, re.M)
        res.update(status="detected" if p.returncode == 1 else ("missed" if p.returncode == 0 else "machinery"),
                   exit=p.returncode, keys=keys, example=(first.group(1)[:300] if first else ""),
                   wall_s=round(time.time() - t0, 1))
        if p.returncode not in (0, 1):
            res["detail"] = (p.stdout + p.stderr)[-400:]
    finally:
        subprocess.run(["git", "-C", "/repo", "worktree", "remove", "--force", wt], capture_output=True)
        shutil.rmtree(out, ignore_errors=True)
    return res


def main():
    ids = sys.argv[1:] or sorted(d for d in os.listdir(SEEDED) if os.path.isfile(os.path.join(SEEDED, d, "patch.diff")))
    path = os.path.join(SEEDED, "RESULTS.json")
    results = json.load(open(path)) if os.path.exists(path) else {}
    head = subprocess.run(["git", "-C", "/repo", "rev-parse", "--short", "HEAD"], capture_output=True, text=True).stdout.strip()
    for sid in ids:
        r = run_seed(sid)
        r["repo_head"] = head
        results[sid] = r
        print(sid, r["status"], r.get("keys"), flush=True)
        mp = os.path.join(SEEDED, sid, "meta.json")
        try:
            meta = json.load(open(mp))
        except Exception:
            meta = {}
        if r["status"] == "detected":
            meta["detected_by"] = {"command": f"tools/seed_matrix.py {sid}  (= ./check {r['check']} --tier quick on a scratch worktree with the patch)",
                                   "check": r["check"], "keys": r["keys"], "example": r["example"]}
        else:
            meta["detected_by"] = {"check": r["check"], "status": r["status"]}
        json.dump(meta, open(mp, "w"), indent=1)
        json.dump(results, open(path, "w"), indent=1, sort_keys=True)


if __name__ == "__main__":
    main()
