#!/bin/sh
# usage: tools/try_seed_wt.sh <abs patch.diff> <Cxx> [tier]
# Like try_seed.sh but never touches /repo: the seeded change is applied in a scratch worktree of /repo's HEAD,
# the check imports quantem from there (PYTHONPATH precedes the editable install) and writes its evidence and
# replay files to a scratch directory.  Safe to run while other checks run against /repo.
P="$1"; ID="$2"; TIER="${3:-quick}"
WT=/tmp/ts_$$_$ID; OUT=/tmp/ts_out_$$_$ID
git -C /repo worktree add -q --detach "$WT" HEAD || exit 2
( cd "$WT" && git apply "$P" ) || { echo "patch does not apply"; git -C /repo worktree remove --force "$WT"; exit 2; }
mkdir -p "$OUT/evidence" "$OUT/replays"
cd /verif
PYTHONPATH="$WT/src" VERIF_OUT="$OUT" ./check "$ID" --tier "$TIER" > "$OUT/log" 2>&1; rc=$?
grep -E "^VIOLATION|^KNOWN|^\[C|MACHINERY" "$OUT/log" | cut -c1-200 | sed 's/replay=.*//' | sort | uniq -c | sort -rn | head -6
grep "key=" "$OUT/log" | cut -c1-300 | sed 's/ ::.*//' | sort | uniq -c | sort -rn | head -8
grep -m2 "key=" "$OUT/log" | cut -c1-400
echo "exit=$rc"
git -C /repo worktree remove --force "$WT"; rm -rf "$OUT"
