#!/bin/sh
# usage: tools/try_seed.sh <patch.diff> <Cxx> [tier]   — apply a seeded change to /repo, run the check, undo.
P="$1"; ID="$2"; TIER="${3:-quick}"
cd /repo || exit 2
git diff --quiet || { echo "/repo has uncommitted changes"; exit 2; }
git apply "$P" || { echo "patch does not apply"; exit 2; }
cd /verif
./check "$ID" --tier "$TIER" > /tmp/try_seed_$ID.log 2>&1; rc=$?
git -C /repo checkout -- . 
grep -E "^VIOLATION|^KNOWN|^\[C|MACHINERY" /tmp/try_seed_$ID.log | cut -c1-200 | sort | uniq -c | sort -rn | head -6
grep -m3 "key=" /tmp/try_seed_$ID.log | cut -c1-300
echo "exit=$rc"
rm -f /verif/replays/*.json
git -C /verif checkout -- evidence 2>/dev/null
