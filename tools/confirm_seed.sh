#!/bin/sh
# usage: tools/confirm_seed.sh <seed-dir-name>   (e.g. C09-1)
# Confirms a seeded change in a scratch worktree: demo passes without, fails with, test suite passes with.
S="$1"; D=/verif/seeded/$S; W=/tmp/cw_$S
git -C /repo worktree add -q "$W" HEAD --detach || exit 2
cd "$W"
export PYTHONPATH="$W/src" MPLBACKEND=Agg
/venv/bin/python "$D/demo.py" > /tmp/cw_$S.demo0 2>&1; r0=$?
git apply "$D/patch.diff" || { echo "$S: patch does not apply"; git -C /repo worktree remove --force "$W"; exit 2; }
/venv/bin/python "$D/demo.py" > /tmp/cw_$S.demo1 2>&1; r1=$?
env -u QUANTEM_VERIF /venv/bin/python -m pytest -q -p no:cacheprovider --timeout=900 tests > /tmp/cw_$S.tests 2>&1; rt=$?
tail -1 /tmp/cw_$S.tests > /tmp/cw_$S.summary
echo "$S demo_without=$r0 demo_with=$r1 tests_rc=$rt $(tail -1 /tmp/cw_$S.tests)"
cd /; git -C /repo worktree remove --force "$W"
